#!/usr/bin/env python3
"""Regenerates /verif/MANIFEST.json (kept in one place so that the list of checks, hooks and
not-applicable properties stays consistent)."""
import json, subprocess

hooks = subprocess.run(["git", "-C", "/repo", "log", "--format=%h %s", "--grep=^verif hooks"], capture_output=True, text=True).stdout.strip().splitlines()

claims = {
 "C01": ("S1 every stored *.piece hashes to its name and to a torrent hash; S2 every use as owned (Have/Bitfield/Piece frame, status Have, PieceDone, extractor read) follows such a write; S3 a piece assembled with a failed hash is not marked done and is fetched again. Seeded search over adversarial peer behaviours x interleavings x disk write faults.", "8 C01"),
 "C02": ("honest swarm => all files byte-identical on the simulated disk within 3600 virtual s, no panic, session alive; seeded search over geometry x piece distribution x segmentation/latency/yields x disconnects of non-essential peers.", "8 C02"),
 "C03": ("every listed file has exactly its bytes after a real download + real extraction (piece lengths 1 B .. 2.2 MB, incl. values around the client's own 256 KiB default); for declared totals up to 2^33 the length the client assigns to every piece equals the geometry's (profile phantom-piece); configuration dimension sampled, schedule adds nothing (stated).", "8 C03"),
 "C04": ("every path created on the simulated disk resolves inside the session directory, for hostile name/path grammars; the simulated disk is the canary.", "8 C04"),
 "C06": ("rig A: frames returned = reference decode for every segmentation, prompt at every quiescent point, no panic, bounded buffer, malformed/truncated streams end in an error; rig D: the real task ends within 60 virtual s.", "8 C06"),
 "C08": ("no reply before a valid handshake on incoming connections, nothing after an invalid one (closed and forgotten within 60 s), own handshake exact, no piece data without a valid handshake; seeded search over handshake kinds x positions in a message history.", "8 C08"),
 "C09": ("every Piece frame matches an unanswered request, carries the stored bytes of an owned piece, stays in range, and is not sent while the wire state says choked (a block served in the lag before an Unchoke is accepted only if that Unchoke follows within 5 virtual s); no panic for any (index, begin, length), wherever it surfaces.", "8 C09"),
 "C10": ("per assignment epoch: requests name the piece, <= 16 KiB, inside the piece, never overlap; a further request follows each accepted block while blocks are unrequested; completion exactly when the last outstanding block arrived (reference model PieceRx).", "8 C10"),
 "C11": ("bitfield within [owned at handshake, verified at write]; every Have after verification; announcements are a gap-free run of the completion order, complete on unchoked settled connections.", "8 C11"),
 "C12": ("on every manager snapshot: Have monotone; Reserved => some connected un-choking peer is assigned the piece; assignments only for advertised, still lacking pieces; no manager panic. All inputs come from real connection tasks.", "8 C12"),
 "C13": ("every pick of the real chooser is a candidate of minimal availability in the state it was taken in; None iff no candidate; the availability records it uses equal the Bitfield/Have frames decoded on the live connections; no pick or Have-triggered assignment of a piece another un-choking peer is fetching outside end game.", "8 C13"),
 "C14": ("<= 10 regular + <= 1 optimistic unchoked in every snapshot; post-rotation slot rules with the client's own rates; Choke/Unchoke frames equal the flips of the client's state.", "8 C14"),
 "C18": ("every announce URL produced by the real RequestBuilder: host/port/path kept, existing query kept, exactly one info_hash that form-decodes to the 20 bytes, peer_id, port, left.", "8 C18"),
 "C19": ("after any scripted failure run + good reply (first and later ones) the listed peers the client is not connected to are dialled within 10 virtual s (staged by how busy the client is); never an unlisted address; a client left without connections and candidates announces again within 120 s; announcing never stops for longer than 3x its own retry pause; a dial-in handshake is answered within 10 s at every position of the failure run; no panic.", "8 C19"),
 "C20": ("silent connection closed <= 361 s and its peer entry and reservation released (also judged without the kill request); connection with real-message gaps <= 119 s never closed for inactivity; client keep-alives <= 121 s apart on connections whose peer keeps reading.", "8 C20"),
}
notes = {
 "C03": "input/configuration property decided end-to-end through the simulator; the schedule dimension is vacuous here and the claim is worded accordingly",
 "C04": "input property; the simulator contributes the safe disk oracle",
}
checks = []
for pid, (text, ref) in claims.items():
    checks.append({
        "property_id": pid,
        "quick_cmd": f"bin/check {pid} quick",
        "thorough_cmd": f"bin/check {pid} thorough",
        "evidence_file": f"/verif/evidence/{pid}.json",
        "replay_cmd_template": "bin/check --replay {path}",
        "engine": "rdsim",
        "level_claimed": {"category": "exploration", "text": text + " Sampling, not proof: a clean batch is evidence for the sampled schedules, faults and configurations only.", "design_ref": "DESIGN.md " + ref},
        "level_note": notes.get(pid, "trusted base: shim crates (tokio net/fs, rand, reqwest) mirror the real APIs; independent wire codec, bencode encoder and reference models in the harness; single-threaded FIFO tokio executor with seeded select!/latency/yield perturbation; release build with overflow checks"),
        "technique": "deterministic simulation with fault injection (seeded search over schedules, faults and configurations; real rdest code on a paused-clock tokio runtime against a simulated network, disk, tracker and RNG)",
    })

manifest = {
 "version": 1,
 "setup_cmd": "cd /verif/sim && CARGO_NET_OFFLINE=true cargo build --release --offline -p harness",
 "hooks": {
   "guard": "--cfg rdest_verif",
   "enable": "RUSTFLAGS=\"--cfg rdest_verif --cfg tokio_unstable\" set in /verif/sim/.cargo/config.toml; /verif/sim/rdest-shadow/Cargo.toml builds /repo/src/lib.rs against the shim crates",
   "baseline_off_cmd": "cd /repo && cargo test --workspace --tests --no-fail-fast --offline",
   "source_commits": [h.split()[0] for h in hooks],
   "add_only": True,
 },
 "engines": [
   {"name": "rdsim", "path": "/verif/sim", "serves_properties": list(claims.keys()),
    "kind_free_text": "deterministic simulator: real rdest Session/PeerHandler/Connection/TrackerClient/Extractor on a paused, seeded, single-threaded tokio runtime; simulated TCP, disk, tracker, RNG; scripted peers with an independent codec; oracles over the recorded event log; plan shrinker and exact replay"}
 ],
 "checks": checks,
 "not_applicable": [
   {"property_id": "C05", "reason": "pure synchronous function of the document bytes (DeepFinder + SHA-1): no schedule, clock, I/O or fault for a simulator to vary"},
   {"property_id": "C07", "reason": "pure encode/decode functions on complete buffers: no schedule, clock, I/O or fault involved"},
   {"property_id": "C15", "reason": "pure bencode encode/decode laws: no concurrency, time or I/O"},
   {"property_id": "C16", "reason": "pure bencode grammar acceptance/totality over byte strings: no concurrency, time or I/O"},
   {"property_id": "C17", "reason": "parsing is a pure function; create_file is one synchronous read-hash-write with no concurrency and no fault in the statement"},
 ],
 "notes": "All checks: exit 0 = held on everything explored, exit 1 + 'VIOLATION property=<id> replay=<path>' = violation (minimised plan in the replay file, re-run with bin/check --replay), exit 2 = harness error (e.g. /repo no longer builds against the shims). VERIF_SEED selects the seed block, VERIF_WORKERS the thread count (default 16). known_findings.json lists repaired defects (nothing is suppressed).",
}
json.dump(manifest, open("/verif/MANIFEST.json", "w"), indent=1)
print("written", len(checks), "checks")
