//! Wire monitor: turns the raw event log into a typed timeline (decoded frames in both
//! directions with the harness codec, connection table) shared by all oracles.

use crate::codec::{Item, Msg, StreamDecoder};
use crate::plan::Plan;
use crate::run::RunOut;
use std::collections::BTreeMap;
use world::{CloseKind, ConnId, DialOutcome, Entry, Ev, Side};

#[derive(Clone, Debug)]
pub struct ConnInfo {
    pub conn: ConnId,
    /// address the client knows the peer by
    pub addr: String,
    /// PeerPlan.name of the scripted peer behind it
    pub peer: Option<String>,
    /// true when the peer dialled the client
    pub incoming: bool,
    pub open_seq: u64,
    pub open_ms: u64,
    pub client_close: Option<(u64, u64)>,
    pub peer_close: Option<(u64, u64, CloseKind)>,
}

#[derive(Clone, Debug)]
pub enum TK {
    /// complete message written by the client (at the write that completed it)
    C(ConnId, Msg),
    /// client wrote bytes the reference decoder cannot frame
    CBad(ConnId, String),
    /// complete item made available to the client by the peer
    P(ConnId, Item),
    /// peer stream became fatally malformed at this point (reference decoder verdict)
    PFatal(ConnId, String),
    /// index into RunOut.entries
    Raw(usize),
}

#[derive(Clone, Debug)]
pub struct TL {
    pub seq: u64,
    pub t: u64,
    pub k: TK,
}

pub struct View<'a> {
    pub plan: &'a Plan,
    pub out: &'a RunOut,
    pub tl: Vec<TL>,
    pub conns: BTreeMap<ConnId, ConnInfo>,
}

impl<'a> View<'a> {
    pub fn ev(&self, i: usize) -> &Ev {
        &self.out.entries[i].ev
    }

    pub fn peer_of_addr(&self, addr: &str) -> Option<String> {
        peer_of_addr(self.plan, addr)
    }

    /// Latest connection known under `addr` that was opened at or before `seq`.
    pub fn conn_of_addr_at(&self, addr: &str, seq: u64) -> Option<ConnId> {
        // two connections can carry the same address (a peer we dialled dials us from its
        // listening port): hook events belong to the one the client has not closed yet
        let live = self
            .conns
            .values()
            .filter(|c| c.addr == addr && c.open_seq <= seq && c.client_close.map(|(s, _)| s > seq).unwrap_or(true))
            .map(|c| c.conn)
            // the older one has the connection task; a duplicate is dropped by the client as soon
            // as it looks at it
            .min();
        live.or_else(|| self.conns.values().filter(|c| c.addr == addr && c.open_seq <= seq).map(|c| c.conn).max())
    }

    /// The connection known under `addr` that the client holds open at `seq` (none while the
    /// address is only being dialled, or after the client closed it).
    pub fn live_conn_of_addr_at(&self, addr: &str, seq: u64) -> Option<ConnId> {
        self.conns
            .values()
            .filter(|c| c.addr == addr && c.open_seq <= seq && c.client_close.map(|(s, _)| s > seq).unwrap_or(true))
            .map(|c| c.conn)
            .min()
    }

    /// Virtual time from which the peer behind `conn` has been reading again without
    /// interruption (0 if it never stalled, u64::MAX if it is still stalled at the end).
    pub fn reading_since(&self, conn: ConnId) -> u64 {
        let mut since = 0u64;
        for e in &self.out.entries {
            if let Ev::Fault { kind, detail } = &e.ev {
                if detail == &conn.to_string() {
                    if kind == "stall-begin" || kind == "partition-begin" {
                        since = u64::MAX;
                    } else if kind == "stall-end" || kind == "partition-heal" {
                        since = e.t_ms;
                    }
                }
            }
        }
        since
    }

    pub fn tail(&self, upto_seq: u64, n: usize) -> Vec<String> {
        let end = self.out.entries.iter().position(|e| e.seq > upto_seq).unwrap_or(self.out.entries.len());
        let mut v: Vec<String> = Vec::new();
        let mut i = end;
        while i > 0 && v.len() < n {
            i -= 1;
            let e = &self.out.entries[i];
            if matches!(e.ev, Ev::Snapshot(_) | Ev::Buffered { .. } | Ev::PeerRead { .. } | Ev::ClientRead { .. }) {
                continue;
            }
            let s = e.render();
            v.push(if s.len() > 400 { format!("{}…", &s[..400]) } else { s });
        }
        v.reverse();
        v
    }
}

pub fn peer_of_addr(plan: &Plan, addr: &str) -> Option<String> {
    if let Some(p) = plan.peers.iter().find(|p| p.addr == addr) {
        return Some(p.name.clone());
    }
    let ip = addr.split(':').next()?;
    plan.peers.iter().find(|p| p.addr.split(':').next() == Some(ip)).map(|p| p.name.clone())
}

pub fn build<'a>(plan: &'a Plan, out: &'a RunOut) -> View<'a> {
    let mut conns: BTreeMap<ConnId, ConnInfo> = BTreeMap::new();
    let mut cdec: BTreeMap<ConnId, StreamDecoder> = BTreeMap::new();
    let mut pdec: BTreeMap<ConnId, StreamDecoder> = BTreeMap::new();
    let mut tl = Vec::with_capacity(out.entries.len() + 64);
    for (i, Entry { seq, t_ms, ev }) in out.entries.iter().enumerate() {
        let (seq, t) = (*seq, *t_ms);
        match ev {
            Ev::Dial { conn: Some(c), addr, outcome: DialOutcome::Accepted } => {
                conns.insert(
                    *c,
                    ConnInfo {
                        conn: *c,
                        addr: addr.clone(),
                        peer: peer_of_addr(plan, addr),
                        incoming: false,
                        open_seq: seq,
                        open_ms: t,
                        client_close: None,
                        peer_close: None,
                    },
                );
                tl.push(TL { seq, t, k: TK::Raw(i) });
            }
            Ev::DialIn { conn: Some(c), from, accepted: true } => {
                conns.insert(
                    *c,
                    ConnInfo {
                        conn: *c,
                        addr: from.clone(),
                        peer: peer_of_addr(plan, from),
                        incoming: true,
                        open_seq: seq,
                        open_ms: t,
                        client_close: None,
                        peer_close: None,
                    },
                );
                tl.push(TL { seq, t, k: TK::Raw(i) });
            }
            Ev::ClientWrite { conn, data } => {
                let d = cdec.entry(*conn).or_default();
                let was_fatal = d.fatal.is_some();
                d.push(data);
                while let Some(item) = d.next() {
                    match item {
                        Item::Msg(m) => tl.push(TL { seq, t, k: TK::C(*conn, m) }),
                        Item::Skipped { id, .. } => tl.push(TL { seq, t, k: TK::CBad(*conn, format!("unknown id {}", id)) }),
                    }
                }
                if !was_fatal {
                    if let Some(f) = &d.fatal {
                        tl.push(TL { seq, t, k: TK::CBad(*conn, format!("{:?}", f)) });
                    }
                }
            }
            Ev::PeerWrite { conn, data } => {
                let d = pdec.entry(*conn).or_default();
                let was_fatal = d.fatal.is_some();
                d.push(data);
                while let Some(item) = d.next() {
                    tl.push(TL { seq, t, k: TK::P(*conn, item) });
                }
                if !was_fatal {
                    if let Some(f) = &d.fatal {
                        tl.push(TL { seq, t, k: TK::PFatal(*conn, format!("{:?}", f)) });
                    }
                }
            }
            Ev::Close { conn, by, kind } => {
                if let Some(c) = conns.get_mut(conn) {
                    match by {
                        Side::Client => {
                            if c.client_close.is_none() {
                                c.client_close = Some((seq, t))
                            }
                        }
                        Side::Peer => {
                            if c.peer_close.is_none() {
                                c.peer_close = Some((seq, t, *kind))
                            }
                        }
                    }
                }
                tl.push(TL { seq, t, k: TK::Raw(i) });
            }
            _ => tl.push(TL { seq, t, k: TK::Raw(i) }),
        }
    }
    View { plan, out, tl, conns }
}
