//! Time- and fault-centric oracles: C06 (stream decoding; rig A + garbage-peer profile),
//! C19 (tracker faults), C20 (keep-alive).

use crate::check::{attribute_panic, Check, ProfileSpec, Verdict};
use crate::codec::{norm_debug, Item, Msg, StreamDecoder, MAX_FRAME};
use crate::gen;
use crate::oracles_dl::hash_of;
use crate::plan::{Plan, TrackerStep};
use crate::view::{View, TK, TL};
use std::collections::{BTreeMap, BTreeSet};
use world::{ConnId, Ev};

pub struct C06;

impl Check for C06 {
    fn id(&self) -> &'static str {
        "C06"
    }
    fn profiles(&self) -> Vec<ProfileSpec> {
        vec![
            ProfileSpec { name: "riga-stream", quick: 300_000, thorough: 12_000_000 },
            ProfileSpec { name: "garbage-peer", quick: 4000, thorough: 150_000 },
        ]
    }
    fn rule(&self) -> &'static str {
        "rig A (profile riga-stream): one real Connection fed by a scripted byte source; a stream is a seeded concatenation of all 11 message kinds (incl. 64 KiB frames, empty bitfield, zero-length block), unknown ids with lengths up to 64 KiB, optionally one fatal element (length > 64 KiB, wrong fixed length for ids 0-4/6/8, piece length < 9, bad protocol string) followed by >= 192 KiB of filler, optionally truncated; each stream is delivered under 4 segmentations (whole, random cuts, cuts at +-1 byte around every frame boundary and header field, byte-wise for short streams) with a quiescent point after each chunk, then Fin, Rst or nothing. Rig D (profile garbage-peer): the same kinds of stream sent by a peer to the real connection task. Non-trivial: stream with >= 2 messages and >= 2 chunks, or a fatal/truncated stream. Distinct: distinct (stream hash, segmentation hash)."
    }
    fn assumptions(&self) -> Vec<&'static str> {
        vec![
            "reference decoder with rdest's framing conventions made explicit (codec.rs StreamDecoder)",
            "buffer bound enforced as 2 x (64 KiB + 4): one frame being assembled plus one read",
            "rig D: the connection must be ended within 60 virtual s of the fatal byte / the end of a truncated stream",
        ]
    }
    fn generate(&self, profile: &str, seed: u64) -> Plan {
        gen::generate(profile, seed).expect("profile")
    }
    fn judge(&self, v: &View) -> Verdict {
        if v.plan.profile == "riga-stream" {
            judge_riga(v)
        } else {
            judge_garbage(v)
        }
    }
}

fn judge_riga(v: &View) -> Verdict {
    let mut vd = Verdict::default();
    let mut dec = StreamDecoder::default();
    let mut expect: Vec<Msg> = Vec::new();
    let mut got: Vec<String> = Vec::new();
    let mut chunks = 0u64;
    let mut stream_hash: u64 = 0xcbf2_9ce4_8422_2325;
    let mut seg_hash: u64 = 7;
    let mut returned_err = false;
    let mut returned_none = false;
    let mut closed = false;
    let mut skipped = 0u64;
    let last = v.out.entries.last().map(|e| e.seq).unwrap_or(0);
    for e in &v.out.entries {
        match &e.ev {
            Ev::PeerWrite { data, .. } => {
                chunks += 1;
                for b in data {
                    stream_hash ^= *b as u64;
                    stream_hash = stream_hash.wrapping_mul(0x0000_0100_0000_01B3);
                }
                seg_hash = seg_hash.wrapping_mul(31).wrapping_add(data.len() as u64);
                dec.push(data);
                while let Some(it) = dec.next() {
                    match it {
                        Item::Msg(m) => expect.push(m),
                        Item::Skipped { .. } => skipped += 1,
                    }
                }
            }
            Ev::Decoded { frame, .. } => {
                if returned_err {
                    vd.fail("C06", "C06.frame-after-error", format!("frame {} returned after an error", &frame[..frame.len().min(80)]), e.seq);
                }
                got.push(frame.clone());
                let k = got.len() - 1;
                match expect.get(k) {
                    None => vd.fail(
                        "C06",
                        "C06.extra-frame",
                        format!("frame #{} {} returned but the bytes received so far hold only {} complete messages", k, &frame[..frame.len().min(80)], expect.len()),
                        e.seq,
                    ),
                    Some(m) => {
                        if m.norm() != Some(norm_debug(frame)) {
                            vd.fail(
                                "C06",
                                "C06.wrong-frame",
                                format!("frame #{} decoded as {} but the bytes encode {}", k, &frame[..frame.len().min(80)], crate::actors::brief(m)),
                                e.seq,
                            );
                        }
                    }
                }
            }
            Ev::Buffered { len, .. } => {
                if *len > 2 * (MAX_FRAME + 4) {
                    vd.fail("C06", "C06.buffer-unbounded", format!("receive buffer holds {} bytes (limit 2 x (64 KiB + 4))", len), e.seq);
                }
            }
            Ev::Close { by: world::Side::Peer, .. } => closed = true,
            Ev::Note { who, what } if who == "driver" => {
                if what.starts_with("quiescent") {
                    // (b) prompt: every complete message already received has been returned
                    if !returned_err && !returned_none && got.len() < expect.len() && dec.fatal.is_none() {
                        vd.fail(
                            "C06",
                            "C06.not-prompt",
                            format!(
                                "after {} chunks {} complete messages were received but only {} returned; waiting for more bytes (next undelivered: {})",
                                chunks,
                                expect.len(),
                                got.len(),
                                crate::actors::brief(&expect[got.len()])
                            ),
                            e.seq,
                        );
                    }
                    if !returned_err && got.len() < expect.len() && dec.fatal.is_some() {
                        // messages before the fatal point must still come out first
                        vd.fail(
                            "C06",
                            "C06.not-prompt",
                            format!("{} complete messages precede the malformed one but only {} were returned", expect.len(), got.len()),
                            e.seq,
                        );
                    }
                } else if what.starts_with("ret err") {
                    returned_err = true;
                    if !dec.doomed() && !closed && !(dec.partial() && closed) {
                        vd.fail("C06", "C06.spurious-error", format!("{} on a well-formed stream prefix ({} messages decoded)", what, got.len()), e.seq);
                    }
                } else if what.starts_with("ret none") {
                    returned_none = true;
                    if !closed {
                        vd.fail("C06", "C06.spurious-eof", "end of stream reported while the peer is still connected".into(), e.seq);
                    }
                } else if what.starts_with("end-of-stream") {
                    // (e) fatal element + filler fully delivered: must have errored by now
                    if dec.fatal.is_some() && !returned_err {
                        vd.fail(
                            "C06",
                            "C06.malformed-not-terminated",
                            format!("malformed frame ({:?}) followed by {} more bytes: no error, connection would stall", dec.fatal, dec.buf.len()),
                            e.seq,
                        );
                    }
                } else if what.starts_with("after-close") {
                    if !returned_err && !returned_none {
                        vd.fail("C06", "C06.close-not-noticed", "peer closed the stream but recv_frame is still pending".into(), e.seq);
                    }
                }
            }
            _ => {}
        }
    }
    for (m, l) in &v.out.panics {
        vd.fail("C06", &format!("C06.panic:{}", crate::oracles_dl::panic_class(m)), format!("decoder panicked: {:?} at {}", m, l), last);
    }
    if skipped > 0 {
        vd.probe_n("unknown_id_skipped", skipped);
    }
    if dec.fatal.is_some() {
        vd.probe("fatal_stream");
    }
    if dec.partial() {
        vd.probe("truncated_stream");
    }
    if expect.iter().any(|m| m.encode().len() >= MAX_FRAME) {
        vd.probe("max_size_frame");
    }
    vd.nontrivial = (expect.len() >= 2 && chunks >= 2) || dec.fatal.is_some() || dec.partial();
    vd.class = stream_hash ^ seg_hash.rotate_left(29);
    vd
}

fn judge_garbage(v: &View) -> Verdict {
    let mut vd = Verdict::default();
    // time at which each connection's peer stream became fatal, or was closed mid-message
    let mut fatal_at: BTreeMap<ConnId, (u64, u64, String)> = BTreeMap::new();
    let mut pdec: BTreeMap<ConnId, StreamDecoder> = BTreeMap::new();
    for TL { seq, t, k } in &v.tl {
        match k {
            TK::PFatal(c, why) => {
                fatal_at.entry(*c).or_insert((*seq, *t, format!("malformed frame ({})", why)));
            }
            TK::Raw(i) => {
                if let Ev::PeerWrite { conn, data } = v.ev(*i) {
                    pdec.entry(*conn).or_default().push(data);
                    let d = pdec.get_mut(conn).unwrap();
                    while d.next().is_some() {}
                }
                if let Ev::Close { conn, by: world::Side::Peer, .. } = v.ev(*i) {
                    if pdec.get(conn).map(|d| d.partial()).unwrap_or(false) {
                        fatal_at.entry(*conn).or_insert((*seq, *t, "stream truncated inside a message".into()));
                    }
                }
            }
            _ => {}
        }
    }
    vd.class = hash_of(&fatal_at.values().map(|x| x.2.clone()).collect::<Vec<_>>());
    let last = v.out.entries.last().map(|e| e.seq).unwrap_or(0);
    // what the real task decoded on each connection must be the reference decode of what its peer
    // sent, in order, whatever the segmentation and whatever else the task did in between
    {
        let mut expect: BTreeMap<ConnId, Vec<Msg>> = BTreeMap::new();
        let mut got: BTreeMap<ConnId, usize> = BTreeMap::new();
        let mut last_push: BTreeMap<ConnId, u64> = BTreeMap::new();
        for TL { seq, t, k } in &v.tl {
            match k {
                TK::P(c, Item::Msg(m)) => {
                    expect.entry(*c).or_default().push(m.clone());
                    last_push.insert(*c, *t);
                }
                TK::Raw(i) => {
                    if let Ev::Decoded { addr, frame, .. } = v.ev(*i) {
                        if let Some(c) = v.conn_of_addr_at(addr, *seq) {
                            let k = *got.get(&c).unwrap_or(&0);
                            got.insert(c, k + 1);
                            match expect.get(&c).and_then(|e| e.get(k)) {
                                None => vd.fail(
                                    "C06",
                                    "C06.task-extra-frame",
                                    format!("conn {}: task decoded frame #{} {} but its peer has sent only {} complete messages", c, k, &frame[..frame.len().min(80)], expect.get(&c).map(|e| e.len()).unwrap_or(0)),
                                    *seq,
                                ),
                                Some(m) => {
                                    if m.norm() != Some(norm_debug(frame)) {
                                        vd.fail(
                                            "C06",
                                            "C06.task-wrong-frame",
                                            format!("conn {}: frame #{} decoded as {} but the peer sent {}", c, k, &frame[..frame.len().min(80)], crate::actors::brief(m)),
                                            *seq,
                                        );
                                    }
                                }
                            }
                        }
                    }
                }
                _ => {}
            }
        }
        // prompt at the end of the run: everything a still-open, well-formed connection delivered
        // more than a second ago has been decoded
        for (c, e) in &expect {
            let info = match v.conns.get(c) {
                Some(i) => i,
                None => continue,
            };
            let open = info.client_close.is_none();
            let settled = v.out.end_ms >= last_push.get(c).cloned().unwrap_or(0) + 1000;
            let g = got.get(c).cloned().unwrap_or(0);
            if open && settled && !fatal_at.contains_key(c) && g < e.len() {
                vd.fail(
                    "C06",
                    "C06.task-not-prompt",
                    format!("conn {} ({}): peer sent {} complete messages, the task decoded {} and waits", c, info.addr, e.len(), g),
                    last,
                );
            }
        }
    }
    for (c, (seq, t0, why)) in &fatal_at {
        vd.nontrivial = true;
        vd.probe("fatal_or_truncated_stream_to_task");
        let info = match v.conns.get(c) {
            Some(i) => i,
            None => continue,
        };
        let limit = t0 + 60_000;
        let killed = v.out.entries.iter().find(|e| e.seq > *seq && matches!(&e.ev, Ev::KillReq { addr, .. } if *addr == info.addr)).map(|e| e.t_ms);
        let ok = match killed {
            Some(t) => t <= limit,
            None => v.out.end_ms < limit,
        };
        if !ok {
            vd.fail(
                "C06",
                "C06.task-not-terminated",
                format!(
                    "conn {} ({}): {} at t={} ms, but the connection was {} (limit 60 s)",
                    c,
                    info.addr,
                    why,
                    t0,
                    match killed {
                        Some(t) => format!("ended only at t={} ms", t),
                        None => "never ended".to_string(),
                    }
                ),
                *seq,
            );
        }
    }
    for (m, l) in &v.out.panics {
        if attribute_panic(m, l) == "C06" {
            vd.nontrivial = true;
            vd.fail("C06", &format!("C06.panic:{}", crate::oracles_dl::panic_class(m)), format!("connection task panicked while decoding: {:?} at {}", m, l), last);
        } else if vd.inconclusive.is_none() {
            vd.inconclusive = Some(format!("{} ({} at {})", attribute_panic(m, l), m, l));
        }
    }
    vd
}

// ---------------------------------------------------------------------------------------------

pub struct C19;

impl Check for C19 {
    fn id(&self) -> &'static str {
        "C19"
    }
    fn profiles(&self) -> Vec<ProfileSpec> {
        vec![ProfileSpec { name: "tracker-faults", quick: 15_000, thorough: 1_000_000 }]
    }
    fn rule(&self) -> &'static str {
        "profile tracker-faults: 0-80 failed announces drawn from {connection refused, HTTP 4xx/5xx, garbage body, truncated bencode, failure reason, reply without peers, slow reply} followed by a good reply with k valid and m malformed entries; an honest peer dials in at a random time inside the failure run; re-announce scenarios when all peers die. Non-trivial: >= 1 failed announce before the good one. Distinct: interleaving hash x (number of failures bucket, kinds of failure)."
    }
    fn assumptions(&self) -> Vec<&'static str> {
        vec![
            "10 virtual s bound for contacting listed peers after the first good reply and for answering a dial-in handshake",
            "a client whose last connection ended, with no candidate address left and pieces missing, announces again within 120 virtual s (how soon is its own business; rdest does it at once)",
            "'the client stopped announcing' = no announce in flight and none for longer than max(12 s, 3 x the longest pause the client itself made after a failed announce); the retry delay is not fixed by the statement",
            "the 'any reply body parses without panic' half is sampled only through this generator",
            "the number of peers dialled is not fixed by the statement (the client only fills free connection slots, and how many it has is its own business): of k distinct listed peers min(k, 5) must be dialled when the client is interested in no connection at the reply, min(k, 2) when in 1-3, none otherwise",
        ]
    }
    fn generate(&self, profile: &str, seed: u64) -> Plan {
        gen::generate(profile, seed).expect("profile")
    }
    fn judge(&self, v: &View) -> Verdict {
        let mut vd = Verdict::default();
        let plan = v.plan;
        let fails: Vec<String> = plan
            .tracker
            .steps
            .iter()
            .take_while(|(_, s)| !matches!(s, TrackerStep::Good { .. }))
            .map(|(_, s)| format!("{:?}", s).chars().take(8).collect())
            .collect();
        let kinds: BTreeSet<String> = fails.iter().cloned().collect();
        vd.class = hash_of(&((fails.len() as f64).log2() as i32, kinds));
        // listed addresses per good reply, in announce order
        let listed_of = |n: u64| -> Option<Vec<String>> {
            let i = (n as usize).min(plan.tracker.steps.len().saturating_sub(1));
            match plan.tracker.steps.get(i) {
                Some((_, TrackerStep::Good { peers, .. })) => Some(peers.iter().filter_map(|nm| plan.peers.iter().find(|p| &p.name == nm)).map(|p| p.addr.clone()).collect()),
                _ => None,
            }
        };
        let mut listed: BTreeSet<String> = BTreeSet::new();
        let mut first_good: Option<(u64, u64, Vec<String>)> = None;
        let mut failures_seen = 0u64;
        let mut last_reply_empty_good = false;
        let mut dials: Vec<(u64, String)> = Vec::new();
        for e in &v.out.entries {
            match &e.ev {
                Ev::TrackerReply { n, kind } => {
                    if let Some(l) = listed_of(*n) {
                        for a in &l {
                            listed.insert(a.clone());
                        }
                        // the entry with port 72417 is listed as it stands (dialling it is
                        // pointless but faithful; dialling 10.66.0.9:6881 is not)
                        let i = (*n as usize).min(plan.tracker.steps.len().saturating_sub(1));
                        if let Some((_, TrackerStep::Good { malformed, .. })) = plan.tracker.steps.get(i) {
                            if *malformed > 5 {
                                listed.insert(crate::run::BIG_PORT_ADDR.to_string());
                            }
                        }
                        // a well-formed reply that lists nobody usable is not "the good one" yet
                        last_reply_empty_good = l.is_empty();
                        if first_good.is_none() && !l.is_empty() {
                            first_good = Some((e.seq, e.t_ms, l));
                        }
                    } else {
                        last_reply_empty_good = false;
                        failures_seen += 1;
                        let _ = kind;
                    }
                }
                Ev::Dial { addr, .. } => {
                    if !listed.contains(addr) {
                        vd.fail("C19", "C19.dial-unlisted", format!("client dialled {} which no good tracker reply listed", addr), e.seq);
                    }
                    dials.push((e.t_ms, addr.clone()));
                }
                _ => {}
            }
        }
        vd.probe_n("failed_announces", failures_seen);
        if failures_seen > 64 {
            vd.probe("more_than_64_failures");
        }
        vd.nontrivial = failures_seen > 0;
        let last = v.out.entries.last().map(|e| e.seq).unwrap_or(0);
        // T2
        match &first_good {
            Some((seq, t0, l)) => {
                // the client only fills the connection slots its interesting peers leave free
                // (11 in all): what it was interested in around the reply bounds the demand
                let mut busy = 0usize;
                let mut before = 0usize;
                for e in &v.out.entries {
                    if let Ev::Snapshot(s) = &e.ev {
                        let c = s.peers.iter().filter(|p| p.am_interested).count();
                        if e.t_ms < *t0 {
                            before = c;
                        } else if e.t_ms <= *t0 + 1 {
                            busy = busy.max(c);
                        }
                    }
                }
                busy = busy.max(before);
                if busy >= 9 {
                    vd.probe("good_reply_with_nine_or_more_busy_connections");
                }
                // (the number of slots is the client's business, so the demand is staged rather than
                // computed from a constant: idle client -> 5, a few busy connections -> 2, more -> 0)
                let stage = match busy {
                    0 => 5,
                    1..=3 => 2,
                    _ => 0,
                };
                let want = l.iter().collect::<BTreeSet<_>>().len().min(stage);
                let limit = t0 + 10_000;
                if v.out.end_ms >= limit {
                    let got: BTreeSet<&String> = dials.iter().filter(|(t, a)| *t >= *t0 && *t <= limit && l.contains(a)).map(|(_, a)| a).collect();
                    if got.len() < want {
                        vd.fail(
                            "C19",
                            "C19.listed-peers-not-contacted",
                            format!("good reply at t={} ms listed {:?} but within 10 s only {:?} were dialled ({} failed announces before)", t0, l, got, failures_seen),
                            *seq,
                        );
                    }
                }
            }
            None => {
                // the good reply never reached the client although the script offers one
                // "stopped" is judged against the client's own retry rhythm, not against a fixed
                // delay: no request in flight, and silence towards the tracker for more than three
                // times the longest pause it ever made after a failure (at least 12 s)
                let has_good = plan.tracker.steps.iter().any(|(_, s)| matches!(s, TrackerStep::Good { .. }));
                let mut ann: Vec<u64> = Vec::new();
                let mut rep: Vec<u64> = Vec::new();
                for e in &v.out.entries {
                    match &e.ev {
                        Ev::Announce { .. } => ann.push(e.t_ms),
                        Ev::TrackerReply { .. } => rep.push(e.t_ms),
                        _ => {}
                    }
                }
                let in_flight = ann.len() > rep.len();
                let longest_pause = rep.iter().zip(ann.iter().skip(1)).map(|(r, a)| a.saturating_sub(*r)).max().unwrap_or(0);
                let quiet_since = rep.last().cloned().unwrap_or(0);
                let stopped = !in_flight && v.out.end_ms.saturating_sub(quiet_since) > (3 * longest_pause).max(12_000);
                // (after a reply that listed nobody the client may sit and wait; what it owes then
                // is checked by the re-announce rule below)
                if has_good && stopped && !last_reply_empty_good {
                    vd.fail(
                        "C19",
                        "C19.never-reaches-good-reply",
                        format!("after {} failed announces the client stopped announcing: the good reply scripted as announce #{} was never fetched in {} ms", failures_seen, fails.len(), v.out.end_ms),
                        last,
                    );
                }
            }
        }
        // T2c: every later good reply as well: the listed peers the client is not connected to are
        // dialled (same staged demand as for the first one)
        {
            let mut last_snap: Option<&world::Snap> = None;
            let mut goods: Vec<(u64, u64, Vec<String>, usize)> = Vec::new();
            let mut seen_first = false;
            for e in &v.out.entries {
                match &e.ev {
                    Ev::Snapshot(s) => last_snap = Some(s),
                    Ev::TrackerReply { n, .. } => {
                        if let Some(l) = listed_of(*n) {
                            if l.is_empty() {
                                continue;
                            }
                            if !seen_first {
                                seen_first = true;
                                continue;
                            }
                            let (connected, busy): (BTreeSet<String>, usize) = match last_snap {
                                Some(s) => (s.peers.iter().map(|p| p.addr.clone()).collect(), s.peers.iter().filter(|p| p.am_interested).count()),
                                None => (BTreeSet::new(), 0),
                            };
                            let open: Vec<String> = l.iter().filter(|a| !connected.contains(*a)).cloned().collect::<BTreeSet<_>>().into_iter().collect();
                            goods.push((e.seq, e.t_ms, open, busy));
                        }
                    }
                    _ => {}
                }
            }
            for (seq, t0, open, busy) in goods {
                let stage = match busy {
                    0 => 5,
                    1..=3 => 2,
                    _ => 0,
                };
                let want = open.len().min(stage);
                if want == 0 || v.out.end_ms < t0 + 10_000 {
                    continue;
                }
                vd.probe("later_good_reply_with_unconnected_peers");
                let got: BTreeSet<&String> = dials.iter().filter(|(t, a)| *t >= t0 && *t <= t0 + 10_000 && open.contains(a)).map(|(_, a)| a).collect();
                if got.len() < want {
                    vd.fail(
                        "C19",
                        "C19.listed-peers-not-contacted",
                        format!("later good reply at t={} ms listed {:?} which the client was not connected to, but within 10 s only {:?} were dialled", t0, open, got),
                        seq,
                    );
                }
            }
        }
        // T2b: a client that has just lost its last connection, has no addresses left to try and
        // still lacks pieces asks the tracker again (that is how a later good reply is reached)
        {
            let good_with_peers: Vec<usize> = plan
                .tracker
                .steps
                .iter()
                .enumerate()
                .filter(|(_, (_, s))| matches!(s, TrackerStep::Good { peers, .. } if !peers.is_empty()))
                .map(|(i, _)| i)
                .collect();
            let mut announces: Vec<u64> = Vec::new();
            let mut replies = 0usize;
            let mut pending_kill: Option<(u64, u64)> = None;
            let mut obligations: Vec<(u64, u64, usize)> = Vec::new();
            for e in &v.out.entries {
                match &e.ev {
                    Ev::Announce { .. } => announces.push(e.t_ms),
                    Ev::TrackerReply { .. } => replies += 1,
                    Ev::KillReq { .. } => pending_kill = Some((e.seq, e.t_ms)),
                    Ev::Snapshot(s) => {
                        if let Some((seq, t)) = pending_kill.take() {
                            let lacking = s.status.iter().any(|x| *x != -1);
                            let unfetched_good = good_with_peers.iter().any(|i| *i >= replies);
                            let in_flight = announces.len() > replies;
                            if s.peers.is_empty() && s.candidates == 0 && lacking && unfetched_good && !in_flight {
                                obligations.push((seq, t, announces.len()));
                            }
                        }
                    }
                    _ => {}
                }
            }
            for (seq, t, had) in obligations {
                vd.probe("last_connection_lost_without_candidates");
                if v.out.end_ms < t + 120_000 {
                    continue;
                }
                let again = announces.iter().skip(had).any(|a| *a >= t && *a <= t + 120_000);
                if !again {
                    vd.fail(
                        "C19",
                        "C19.no-reannounce",
                        format!("the last connection ended at t={} ms with no address left to try and pieces missing, but the tracker was not asked again within 120 s (a good reply is still on offer)", t),
                        seq,
                    );
                }
            }
        }
        // T3: dial-in handshakes are answered within 10 s whatever the tracker does
        let mut hs_in: BTreeMap<ConnId, (u64, u64)> = BTreeMap::new();
        let mut hs_out: BTreeMap<ConnId, u64> = BTreeMap::new();
        for TL { seq, t, k } in &v.tl {
            match k {
                TK::P(c, Item::Msg(Msg::Handshake { info_hash, pstr, .. })) => {
                    if v.conns.get(c).map(|i| i.incoming).unwrap_or(false) && info_hash[..] == v.out.torrent.info_hash[..] && pstr.as_slice() == crate::codec::PSTR {
                        hs_in.entry(*c).or_insert((*seq, *t));
                    }
                }
                TK::C(c, Msg::Handshake { .. }) => {
                    hs_out.entry(*c).or_insert(*t);
                }
                _ => {}
            }
        }
        for (c, (seq, t0)) in &hs_in {
            vd.probe("dial_in_handshakes");
            let info = &v.conns[c];
            let limit = t0 + 10_000;
            let peer_left = info.peer_close.map(|(_, t, _)| t <= limit).unwrap_or(false);
            if peer_left || v.out.end_ms < limit {
                continue;
            }
            let during_failures = first_good.as_ref().map(|(_, g, _)| t0 < g).unwrap_or(true);
            if during_failures {
                vd.probe("dial_in_during_tracker_failures");
            }
            match hs_out.get(c) {
                Some(t) if *t <= limit => {}
                other => vd.fail(
                    "C19",
                    "C19.not-serving-during-tracker-faults",
                    format!(
                        "conn {} ({}): valid handshake delivered at t={} ms, client {} (tracker failures so far: {})",
                        c,
                        info.addr,
                        t0,
                        match other {
                            Some(t) => format!("answered only at t={} ms", t),
                            None => "never answered".into(),
                        },
                        failures_seen
                    ),
                    *seq,
                ),
            }
        }
        for (m, l) in &v.out.panics {
            vd.fail("C19", &format!("C19.panic:{}", crate::oracles_dl::panic_class(m)), format!("panic under tracker faults: {:?} at {}", m, l), last);
        }
        vd
    }
}

// ---------------------------------------------------------------------------------------------

pub struct C20;

impl Check for C20 {
    fn id(&self) -> &'static str {
        "C20"
    }
    fn profiles(&self) -> Vec<ProfileSpec> {
        vec![ProfileSpec { name: "keepalive", quick: 1500, thorough: 90_000 }]
    }
    fn rule(&self) -> &'static str {
        "profile keepalive: peers (dial-in and listed) complete a handshake and then follow an arrival pattern: nothing; keep-alives only (every 1-119 s); real messages with gaps from [0,119] U {119, 119.999} s; a silent stretch >= 361 s at the start, middle or end of a busy life; one peer holds a reservation when it goes silent. Horizon 800-1000 virtual s. Non-trivial: >= 1 connection lived >= 361 s or was closed for inactivity. Distinct: interleaving hash x multiset of arrival-pattern kinds."
    }
    fn assumptions(&self) -> Vec<&'static str> {
        vec![
            "'real message' = one of the known non-keep-alive kinds as decoded by the client; unknown ids are not relied on",
            "1 virtual s of slack on the 360 s and 120 s bounds; gaps in (120, 360) s carry no claim",
        ]
    }
    fn generate(&self, profile: &str, seed: u64) -> Plan {
        gen::generate(profile, seed).expect("profile")
    }
    fn judge(&self, v: &View) -> Verdict {
        let mut vd = Verdict::default();
        struct CS {
            real: Vec<u64>,
            hs_out: Option<u64>,
            kas: Vec<u64>,
        }
        let mut cs: BTreeMap<ConnId, CS> = BTreeMap::new();
        let mut kills: Vec<(u64, u64, String, String)> = Vec::new();
        for TL { seq, t, k } in &v.tl {
            match k {
                TK::C(c, m) => {
                    let st = cs.entry(*c).or_insert(CS { real: vec![], hs_out: None, kas: vec![] });
                    match m {
                        Msg::Handshake { .. } => st.hs_out = Some(*t),
                        Msg::KeepAlive => st.kas.push(*t),
                        _ => {}
                    }
                }
                TK::Raw(i) => match v.ev(*i) {
                    Ev::Decoded { addr, frame, .. } => {
                        if !frame.starts_with("KeepAlive") {
                            if let Some(c) = v.conn_of_addr_at(addr, *seq) {
                                cs.entry(c).or_insert(CS { real: vec![], hs_out: None, kas: vec![] }).real.push(*t);
                            }
                        }
                    }
                    Ev::KillReq { addr, reason } => kills.push((*seq, *t, addr.clone(), reason.clone())),
                    _ => {}
                },
                _ => {}
            }
        }
        let end = v.out.end_ms;
        let kinds: Vec<String> = v.plan.peers.iter().map(|p| format!("{:?}{}", p.keepalive.is_some(), p.script.len())).collect();
        vd.class = hash_of(&kinds);
        let empty = CS { real: vec![], hs_out: None, kas: vec![] };
        for (c, info) in &v.conns {
            // a connection on which nothing at all happened is still a connection
            let st = cs.get(c).unwrap_or(&empty);
            let client_close = info.client_close.map(|x| x.1);
            // the peer's close only bounds the obligation when the peer left first (a peer end
            // closing after the client closed is a reaction, not a departure)
            let peer_left_first = match (info.peer_close, info.client_close) {
                (Some(p), Some(c)) => p.0 < c.0,
                (Some(_), None) => true,
                _ => false,
            };
            let life_end = if peer_left_first { info.peer_close.map(|x| x.1).unwrap_or(end).min(end) } else { end };
            if life_end.saturating_sub(info.open_ms) >= 361_000 {
                vd.nontrivial = true;
                vd.probe("connection_lived_361s");
            }
            // K1: silence of 361 s => closed by the client by then
            let mut marks = vec![info.open_ms];
            marks.extend(st.real.iter().cloned());
            for (j, r) in marks.iter().enumerate() {
                let next = marks.get(j + 1).cloned().unwrap_or(u64::MAX);
                let limit = r + 361_000;
                if next > limit && life_end > limit {
                    vd.probe("silent_361s");
                    vd.nontrivial = true;
                    let ok = client_close.map(|t| t <= limit).unwrap_or(false);
                    if !ok {
                        vd.fail(
                            "C20",
                            "C20.silent-not-closed",
                            format!("conn {} ({}): nothing but keep-alives since t={} ms, still open at t={} ms", c, info.addr, r, limit),
                            info.open_seq,
                        );
                    }
                    break;
                }
            }
            // K2: closed for inactivity although every gap was <= 119 s
            if let Some((kseq, kt, _, reason)) = kills.iter().find(|k| k.2 == info.addr && k.0 >= info.open_seq && k.3.to_lowercase().contains("keep alive")) {
                vd.probe("closed_for_inactivity");
                vd.nontrivial = true;
                let mut m = vec![info.open_ms];
                m.extend(st.real.iter().cloned().filter(|t| *t <= *kt));
                m.push(*kt);
                let max_gap = m.windows(2).map(|w| w[1] - w[0]).max().unwrap_or(0);
                if max_gap <= 119_000 {
                    vd.fail(
                        "C20",
                        "C20.live-connection-closed",
                        format!("conn {} ({}) closed for inactivity ({}) although the longest gap between real messages was {} ms", c, info.addr, reason, max_gap),
                        *kseq,
                    );
                }
            }
            // K3: own keep-alives at every interval (not judged on a connection whose peer stopped
            // reading at some point: a frame cannot be delivered to a peer that does not read)
            if let Some(h) = st.hs_out.filter(|_| v.reading_since(*c) == 0) {
                let conn_end = client_close.unwrap_or(u64::MAX).min(life_end);
                let mut prev = h;
                for k in st.kas.iter().chain(std::iter::once(&conn_end)) {
                    if *k > prev + 121_000 {
                        // the third silent interval ends in closure instead of a keep-alive: allowed
                        let closing = client_close.map(|t| t <= prev + 121_000).unwrap_or(false);
                        if !closing {
                            vd.fail(
                                "C20",
                                "C20.keepalive-missing",
                                format!("conn {} ({}): no keep-alive from the client between t={} ms and t={} ms", c, info.addr, prev, (*k).min(end)),
                                info.open_seq,
                            );
                            break;
                        }
                    }
                    prev = *k;
                }
                if !st.kas.is_empty() {
                    vd.probe("client_keepalives_seen");
                }
            }
        }
        // the same without relying on the kill request having reached the manager: a minute after
        // the client closed a connection that had been silent for the whole limit, the manager no
        // longer lists that peer (unless the address has connected anew)
        for (c, info) in &v.conns {
            // (only for connections the peer opened: an address the client dialled itself may be
            // dialled again at once, and the manager's entry would be the new attempt's)
            if !info.incoming {
                continue;
            }
            let tc = match info.client_close {
                Some((_, t)) => t,
                None => continue,
            };
            let st = match cs.get(c) {
                Some(st) => st,
                None => continue,
            };
            let last_real = st.real.iter().cloned().filter(|t| *t <= tc).max().unwrap_or(info.open_ms);
            if tc.saturating_sub(last_real) < 359_000 || end < tc + 60_000 {
                continue;
            }
            let renewed = v.conns.values().any(|o| o.addr == info.addr && o.conn != *c && o.open_ms >= tc.saturating_sub(1));
            if renewed {
                continue;
            }
            if let Some(e) = v.out.entries.iter().find(|e| e.t_ms >= tc + 60_000 && matches!(e.ev, Ev::Snapshot(_))) {
                if let Ev::Snapshot(s) = &e.ev {
                    if s.peers.iter().any(|p| p.addr == info.addr) {
                        vd.fail("C20", "C20.peer-not-released", format!("{} was closed for inactivity at t={} ms and is still known to the manager a minute later", info.addr, tc), e.seq);
                    }
                }
            }
        }
        // peer state and reservation released after an inactivity close
        let mut after_kill: Vec<(u64, String)> = kills.iter().filter(|k| k.3.to_lowercase().contains("keep alive")).map(|k| (k.0, k.2.clone())).collect();
        for e in &v.out.entries {
            if let Ev::Snapshot(s) = &e.ev {
                after_kill.retain(|(kseq, addr)| {
                    if e.seq > *kseq {
                        if s.peers.iter().any(|p| &p.addr == addr) && v.conn_of_addr_at(addr, e.seq) == v.conn_of_addr_at(addr, *kseq) {
                            vd.fail("C20", "C20.peer-not-released", format!("{} still known to the manager after its inactivity close", addr), e.seq);
                        }
                        for (i, st) in s.status.iter().enumerate() {
                            if *st > 0 && !s.peers.iter().any(|p| p.piece_index == Some(i)) {
                                vd.fail("C20", "C20.reservation-not-released", format!("piece {} still reserved after {} was closed for inactivity", i, addr), e.seq);
                            }
                        }
                        return false;
                    }
                    true
                });
            }
        }
        let last = v.out.entries.last().map(|e| e.seq).unwrap_or(0);
        for (m, l) in &v.out.panics {
            if vd.inconclusive.is_none() {
                vd.inconclusive = Some(format!("{} ({} at {})", attribute_panic(m, l), m, l));
            }
            let _ = last;
        }
        vd
    }
}
