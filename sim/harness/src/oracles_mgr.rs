//! Manager-state oracles evaluated on the snapshot / pick / rotation hook events:
//! C12 (reservations), C13 (rarest-first), C14 (choking).

use crate::check::{attribute_panic, Check, ProfileSpec, Verdict};
use crate::codec::{bitfield_bits, norm_debug, Msg};
use crate::gen;
use crate::oracles_dl::hash_of;
use crate::plan::Plan;
use crate::run::End;
use crate::view::{View, TK, TL};
use std::collections::{BTreeMap, BTreeSet};
use world::{ConnId, Ev, Snap};

pub struct C12;

impl Check for C12 {
    fn id(&self) -> &'static str {
        "C12"
    }
    fn profiles(&self) -> Vec<ProfileSpec> {
        vec![
            ProfileSpec { name: "bookkeeping", quick: 15_000, thorough: 1_000_000 },
            ProfileSpec { name: "honest-swarm", quick: 2000, thorough: 100_000 },
        ]
    }
    fn rule(&self) -> &'static str {
        "profile bookkeeping: 2-8 peers, each a seeded random walk over {Choke, Unchoke (also redundant), Interested, NotInterested, Have(i), Bitfield again, answer blocks, answer stale blocks after Choke/Unchoke, finish pieces, Fin/Rst}, both >= 10 and < 10 pieces. Every manager input is produced by a real connection task reacting to wire bytes. Invariants on every manager snapshot. Non-trivial: a run in which >= 1 piece was Reserved and >= 1 Choke or disconnect hit a peer holding a reservation. Distinct: interleaving hash x geometry size class."
    }
    fn assumptions(&self) -> Vec<&'static str> {
        vec![
            "only the statement's direction is checked: Reserved => some un-choking connected peer is assigned the piece (Missing while somebody still fetches is allowed)",
            "snapshots are taken after every fully handled manager event, so transient states inside one handler are not observed",
        ]
    }
    fn generate(&self, profile: &str, seed: u64) -> Plan {
        gen::generate(profile, seed).expect("profile")
    }
    fn judge(&self, v: &View) -> Verdict {
        let mut vd = Verdict::default();
        let n = v.out.torrent.pieces();
        vd.class = hash_of(&(n >= 10, v.plan.peers.len()));
        let mut have: BTreeSet<usize> = BTreeSet::new();
        // what each connection's peer advertised, as decoded by the client
        let mut adv: BTreeMap<ConnId, Vec<bool>> = BTreeMap::new();
        let mut last_pick: BTreeMap<String, (Option<usize>, Snap)> = BTreeMap::new();
        let mut prev_snap: Option<Snap> = None;
        let mut flip_snap: BTreeMap<String, (usize, i64)> = BTreeMap::new();
        let mut saw_reserved = false;
        let mut choke_on_holder = false;
        for TL { seq, k, .. } in &v.tl {
            let seq = *seq;
            if let TK::Raw(i) = k {
                match v.ev(*i) {
                    Ev::Decoded { addr, frame, .. } => {
                        let (name, nums) = norm_debug(frame);
                        if let Some(c) = v.conn_of_addr_at(addr, seq) {
                            let a = adv.entry(c).or_insert_with(|| vec![false; n]);
                            if name == "Bitfield" {
                                let bytes: Vec<u8> = nums.iter().map(|x| *x as u8).collect();
                                *a = bitfield_bits(&bytes, n);
                            } else if name == "Have" && nums.len() == 1 && (nums[0] as usize) < n {
                                a[nums[0] as usize] = true;
                            } else if name == "Choke" {
                                if let Some(s) = &prev_snap {
                                    if s.peers.iter().any(|p| &p.addr == addr && p.piece_index.is_some() && !p.choked) {
                                        choke_on_holder = true;
                                        vd.probe("choke_from_peer_holding_an_assignment");
                                    }
                                    if s.peers.iter().any(|p| &p.addr == addr && p.choked) {
                                        vd.probe("redundant_choke");
                                    }
                                }
                            } else if name == "Unchoke" {
                                if let Some(s) = &prev_snap {
                                    if s.peers.iter().any(|p| &p.addr == addr && !p.choked) {
                                        vd.probe("redundant_unchoke");
                                    }
                                }
                            }
                        }
                    }
                    Ev::Pick { addr, chosen, snap } => {
                        last_pick.insert(addr.clone(), (*chosen, snap.clone()));
                    }
                    Ev::Assigned { addr, index, .. } => {
                        // I3a: the peer advertised the piece
                        let c = v.conn_of_addr_at(addr, seq);
                        let advertised = c.and_then(|c| adv.get(&c)).map(|a| a.get(*index).cloned().unwrap_or(false)).unwrap_or(false);
                        if !advertised {
                            vd.fail("C12", "C12.asked-unadvertised", format!("{} asked for piece {} which it never advertised", addr, index), seq);
                        }
                        // I3b: the client lacked it in the state the decision was taken in
                        match last_pick.remove(addr) {
                            Some((Some(ch), snap)) if ch == *index => {
                                if snap.status.get(*index) == Some(&-1) {
                                    vd.fail("C12", "C12.asked-owned", format!("{} asked for piece {} which the client already owned when it decided", addr, index), seq);
                                }
                            }
                            _ => {
                                // Have-triggered assignment: the first snapshot that showed it
                                if let Some((i, st)) = flip_snap.get(addr) {
                                    if *i == *index && *st == -1 {
                                        vd.fail("C12", "C12.asked-owned", format!("{} asked for piece {} which the client already owned when it decided", addr, index), seq);
                                    }
                                }
                            }
                        }
                    }
                    Ev::Snapshot(s) => {
                        // I1: Have is monotone
                        for (i, st) in s.status.iter().enumerate() {
                            if *st == -1 {
                                have.insert(i);
                            } else if have.contains(&i) {
                                vd.fail("C12", "C12.have-reverted", format!("piece {} was owned and is now {}", i, st), seq);
                            }
                        }
                        // I2: Reserved => somebody un-choking is assigned it
                        for (i, st) in s.status.iter().enumerate() {
                            if *st > 1 {
                                vd.probe("snapshots_with_piece_reserved_by_2_or_more");
                            }
                            if *st > 0 {
                                saw_reserved = true;
                                let holder = s.peers.iter().any(|p| p.piece_index == Some(i) && !p.choked);
                                if !holder {
                                    let who: Vec<String> = s.peers.iter().filter(|p| p.piece_index == Some(i)).map(|p| format!("{}(choked={})", p.addr, p.choked)).collect();
                                    vd.fail(
                                        "C12",
                                        "C12.stale-reservation",
                                        format!("piece {} is Reserved({}) but no connected un-choking peer is assigned it (assigned: {:?})", i, st, who),
                                        seq,
                                    );
                                }
                            }
                        }
                        // remember the state in which an assignment first became visible
                        for p in &s.peers {
                            let before = prev_snap.as_ref().and_then(|ps| ps.peers.iter().find(|q| q.addr == p.addr)).and_then(|q| q.piece_index);
                            if p.piece_index != before {
                                if let Some(i) = p.piece_index {
                                    flip_snap.insert(p.addr.clone(), (i, s.status.get(i).cloned().unwrap_or(0)));
                                }
                            }
                        }
                        prev_snap = Some(s.clone());
                    }
                    Ev::KillReq { addr, .. } => {
                        if let Some(s) = &prev_snap {
                            if s.peers.iter().any(|p| &p.addr == addr && p.piece_index.is_some()) {
                                choke_on_holder = true;
                                vd.probe("peer_gone_while_holding_an_assignment");
                            }
                        }
                    }
                    Ev::DialIn { from, accepted: true, .. } => {
                        if let Some(s) = &prev_snap {
                            if s.peers.iter().any(|p| &p.addr == from) {
                                vd.probe("dial_in_from_already_connected_address");
                            }
                        }
                    }
                    _ => {}
                }
            }
        }
        vd.nontrivial = saw_reserved && choke_on_holder;
        let last = v.out.entries.last().map(|e| e.seq).unwrap_or(0);
        for (m, l) in &v.out.panics {
            if attribute_panic(m, l) == "C12" {
                vd.fail("C12", &format!("C12.panic:{}", crate::oracles_dl::panic_class(m)), format!("manager panicked: {:?} at {}", m, l), last);
            } else if vd.inconclusive.is_none() {
                vd.inconclusive = Some(format!("{} ({} at {})", attribute_panic(m, l), m, l));
            }
        }
        if v.out.end == End::SessionReturned {
            vd.fail("C12", "C12.session-ended", "the session returned".into(), last);
        }
        vd
    }
}

// ---------------------------------------------------------------------------------------------

pub struct C13;

impl Check for C13 {
    fn id(&self) -> &'static str {
        "C13"
    }
    fn profiles(&self) -> Vec<ProfileSpec> {
        vec![
            ProfileSpec { name: "bookkeeping", quick: 4000, thorough: 300_000 },
            ProfileSpec { name: "honest-swarm", quick: 4000, thorough: 200_000 },
            ProfileSpec { name: "adversary-mix", quick: 4000, thorough: 200_000 },
        ]
    }
    fn rule(&self) -> &'static str {
        "every piece choice the real manager makes in the bookkeeping, honest-swarm and adversary-mix profiles (states reached by real histories only; tie-breaks from the seeded thread_rng shim; availability ties from overlapping bitfields). Non-trivial: a run with >= 1 pick whose candidate set had >= 2 pieces of differing availability, or an end-game pick. Distinct: interleaving hash x (pieces >= 10)."
    }
    fn assumptions(&self) -> Vec<&'static str> {
        vec![
            "'not already being fetched from another peer' is accepted under both readings: Reserved pieces are excluded, or Reserved pieces held by nobody else are allowed",
            "the state a pick was taken in is the snapshot emitted by the hook inside choose_piece_index",
        ]
    }
    fn generate(&self, profile: &str, seed: u64) -> Plan {
        gen::generate(profile, seed).expect("profile")
    }
    fn judge(&self, v: &View) -> Verdict {
        let mut vd = Verdict::default();
        let n = v.out.torrent.pieces();
        vd.class = hash_of(&(n >= 10, v.plan.profile.clone()));
        // piece choices made outside the chooser (a Have that is answered with a request at once):
        // the first snapshot in which a peer's assignment changed without a pick for it
        let mut prev: Option<Snap> = None;
        let mut picked: BTreeMap<String, Option<usize>> = BTreeMap::new();
        for e in &v.out.entries {
            match &e.ev {
                Ev::Pick { addr, chosen, .. } => {
                    picked.insert(addr.clone(), *chosen);
                }
                Ev::Snapshot(s) => {
                    for p in &s.peers {
                        let before = prev.as_ref().and_then(|ps| ps.peers.iter().find(|q| q.addr == p.addr)).and_then(|q| q.piece_index);
                        if let Some(i) = p.piece_index {
                            if Some(i) != before && picked.get(&p.addr).cloned().flatten() != Some(i) {
                                vd.probe("assignments_without_pick");
                                let not_have = s.status.iter().filter(|x| **x != -1).count();
                                let others: Vec<&String> = s.peers.iter().filter(|q| q.addr != p.addr && q.piece_index == Some(i) && !q.choked).map(|q| &q.addr).collect();
                                if not_have >= 10 && !others.is_empty() && s.status.get(i).cloned().unwrap_or(0) != -1 {
                                    vd.fail(
                                        "C13",
                                        "C13.assigned-in-flight",
                                        format!("{} was given piece {} which {:?} is already fetching, with {} pieces still missing", p.addr, i, others, not_have),
                                        e.seq,
                                    );
                                }
                            }
                        }
                    }
                    picked.clear();
                    prev = Some(s.clone());
                }
                _ => {}
            }
        }
        // what each connection's peer advertised on the wire, as decoded by the client: per piece
        // the virtual time it became set (a Bitfield replaces the whole set)
        let mut adv: BTreeMap<ConnId, (Vec<Option<u64>>, u64)> = BTreeMap::new();
        for e in &v.out.entries {
            if let Ev::Decoded { addr, frame, .. } = &e.ev {
                let (name, nums) = norm_debug(frame);
                if let Some(c) = v.conn_of_addr_at(addr, e.seq) {
                    let a = adv.entry(c).or_insert_with(|| (vec![None; n], 0));
                    if name == "Bitfield" {
                        let bytes: Vec<u8> = nums.iter().map(|x| *x as u8).collect();
                        let bits = bitfield_bits(&bytes, n);
                        for (i, b) in bits.iter().enumerate() {
                            a.0[i] = if *b { Some(a.0[i].unwrap_or(e.t_ms)) } else { None };
                        }
                        a.1 = e.t_ms;
                    } else if name == "Have" && nums.len() == 1 && (nums[0] as usize) < n {
                        let i = nums[0] as usize;
                        if a.0[i].is_none() {
                            a.0[i] = Some(e.t_ms);
                        }
                    }
                }
            }
            if let Ev::Pick { snap, .. } = &e.ev {
                // the manager's availability records must be the wire advertisements: everything a
                // connected peer advertised before this instant counts (virtual time only moves when
                // every task is idle, so an announcement decoded earlier has been handled), and
                // nothing else does
                for p in &snap.peers {
                    let c = match v.live_conn_of_addr_at(&p.addr, e.seq) {
                        Some(c) => c,
                        None => continue,
                    };
                    let (w, last_bitfield) = match adv.get(&c) {
                        Some(a) => (a.0.clone(), a.1),
                        None => (vec![None; n], 0),
                    };
                    if last_bitfield == e.t_ms && last_bitfield != 0 {
                        continue;
                    }
                    for x in 0..n {
                        if snap.status.get(x) == Some(&-1) {
                            continue;
                        }
                        let rec = p.pieces.get(x).cloned().unwrap_or(false);
                        match w[x] {
                            Some(t) if t < e.t_ms && !rec => {
                                vd.fail(
                                    "C13",
                                    "C13.advertisement-not-counted",
                                    format!("{} advertised piece {} at t={} ms (the client lacks it), but at the pick at t={} ms it is not counted for that peer", p.addr, x, t, e.t_ms),
                                    e.seq,
                                );
                            }
                            None if rec => {
                                vd.fail(
                                    "C13",
                                    "C13.counted-unadvertised",
                                    format!("piece {} is counted as available from {} which never advertised it", x, p.addr),
                                    e.seq,
                                );
                            }
                            _ => {}
                        }
                    }
                }
            }
            if let Ev::Pick { addr, chosen, snap } = &e.ev {
                vd.probe("picks");
                let me = match snap.peers.iter().find(|p| &p.addr == addr) {
                    Some(p) => p,
                    None => continue,
                };
                let not_have = snap.status.iter().filter(|s| **s != -1).count();
                let end_game = not_have < 10;
                let avail = |i: usize| snap.peers.iter().filter(|p| p.pieces.get(i).cloned().unwrap_or(false)).count();
                let adv = |i: usize| me.pieces.get(i).cloned().unwrap_or(false);
                let s1: Vec<usize> = (0..n).filter(|i| adv(*i) && snap.status[*i] != -1 && (snap.status[*i] == 0 || end_game)).collect();
                let s2: Vec<usize> = (0..n)
                    .filter(|i| {
                        adv(*i)
                            && snap.status[*i] != -1
                            && (snap.status[*i] == 0 || end_game || !snap.peers.iter().any(|p| p.addr != *addr && p.piece_index == Some(*i)))
                    })
                    .collect();
                let mut avs: BTreeSet<usize> = s1.iter().map(|i| avail(*i)).collect();
                if avs.len() >= 2 {
                    vd.nontrivial = true;
                    vd.probe("picks_with_differing_availability");
                }
                if end_game && !s1.is_empty() {
                    vd.nontrivial = true;
                    vd.probe("end_game_picks");
                }
                avs.clear();
                match chosen {
                    Some(x) => {
                        // whatever the status vector says: a connected peer that does not choke us
                        // and has been asked for x is fetching it
                        let fetching: Vec<&String> = snap.peers.iter().filter(|p| p.addr != *addr && p.piece_index == Some(*x) && !p.choked).map(|p| &p.addr).collect();
                        if !end_game && !fetching.is_empty() {
                            vd.fail(
                                "C13",
                                "C13.picked-in-flight",
                                format!("{} was given piece {} which {:?} is already fetching, with {} pieces still missing (status of the piece: {})", addr, x, fetching, not_have, snap.status.get(*x).cloned().unwrap_or(-9)),
                                e.seq,
                            );
                        }
                        if !s2.contains(x) {
                            vd.fail(
                                "C13",
                                "C13.not-a-candidate",
                                format!("{} was given piece {} (advertised={}, status={}, end_game={})", addr, x, adv(*x), snap.status.get(*x).cloned().unwrap_or(-9), end_game),
                                e.seq,
                            );
                        } else if let Some(y) = s1.iter().find(|y| avail(**y) < avail(*x)) {
                            vd.fail(
                                "C13",
                                "C13.not-rarest",
                                format!("{} was given piece {} (held by {} peers) although piece {} is held by only {}", addr, x, avail(*x), y, avail(*y)),
                                e.seq,
                            );
                        }
                    }
                    None => {
                        if !s1.is_empty() {
                            vd.fail("C13", "C13.nothing-picked", format!("{} was given nothing although pieces {:?} qualify", addr, s1), e.seq);
                        } else {
                            vd.probe("picks_none");
                        }
                    }
                }
            }
        }
        vd
    }
}

// ---------------------------------------------------------------------------------------------

pub struct C14;

impl Check for C14 {
    fn id(&self) -> &'static str {
        "C14"
    }
    fn profiles(&self) -> Vec<ProfileSpec> {
        vec![
            ProfileSpec { name: "choking", quick: 4000, thorough: 300_000 },
            ProfileSpec { name: "bookkeeping", quick: 4000, thorough: 200_000 },
        ]
    }
    fn rule(&self) -> &'static str {
        "profile choking: 8-16 listed + 0-6 dial-in peers, interest toggling, differing transfer speeds (distinct and tied rates), bitfields arriving in bursts, 3-8 rotations (30-90 virtual s), seeded peer-map hasher keys (tie order). Non-trivial: >= 1 rotation was carried out with >= 1 interested peer, or >= 11 peers were connected at once. Distinct: interleaving hash x number of peers."
    }
    fn assumptions(&self) -> Vec<&'static str> {
        vec![
            "rates are the ones the client itself used for the rotation (hook), not re-measured",
            "frame/state agreement is checked as: frames written are a prefix of the state flips at any time and equal to them on connections that are open and settled at the end",
        ]
    }
    fn generate(&self, profile: &str, seed: u64) -> Plan {
        gen::generate(profile, seed).expect("profile")
    }
    fn judge(&self, v: &View) -> Verdict {
        let mut vd = Verdict::default();
        vd.class = hash_of(&v.plan.peers.len());
        // flips of am_choked per connection; frames per connection
        let mut flips: BTreeMap<ConnId, Vec<bool>> = BTreeMap::new();
        let mut cur: BTreeMap<ConnId, bool> = BTreeMap::new();
        let mut frames: BTreeMap<ConnId, Vec<bool>> = BTreeMap::new();
        let mut last_flip_t: BTreeMap<ConnId, u64> = BTreeMap::new();
        let mut observe = |vd: &mut Verdict, v: &View, s: &Snap, seq: u64, now: u64| {
            let regular = s.peers.iter().filter(|p| !p.am_choked && !p.optimistic).count();
            let opt = s.peers.iter().filter(|p| !p.am_choked && p.optimistic).count();
            if s.peers.len() >= 11 {
                vd.probe("snapshots_with_11_or_more_peers");
                vd.nontrivial = true;
            }
            if regular > 10 {
                vd.fail("C14", "C14.too-many-unchoked", format!("{} peers unchoked in regular slots (+{} optimistic) out of {}", regular, opt, s.peers.len()), seq);
            }
            if opt > 1 {
                vd.fail("C14", "C14.too-many-optimistic", format!("{} optimistic unchokes", opt), seq);
            }
            for p in &s.peers {
                if let Some(c) = v.conn_of_addr_at(&p.addr, seq) {
                    let was = cur.get(&c).cloned().unwrap_or(true);
                    if was != p.am_choked {
                        flips.entry(c).or_default().push(p.am_choked);
                        cur.insert(c, p.am_choked);
                        last_flip_t.insert(c, now);
                    }
                }
            }
        };
        for TL { seq, t, k } in &v.tl {
            let (seq, now) = (*seq, *t);
            match k {
                TK::C(c, Msg::Choke) => frames.entry(*c).or_default().push(true),
                TK::C(c, Msg::Unchoke) => frames.entry(*c).or_default().push(false),
                TK::Raw(i) => match v.ev(*i) {
                    Ev::Snapshot(s) => observe(&mut vd, v, s, seq, now),
                    Ev::Rotation { rates, new_optimistic, snap, .. } => {
                        vd.probe("rotations");
                        if snap.peers.iter().any(|p| p.interested) {
                            vd.nontrivial = true;
                            vd.probe("rotations_with_interested_peer");
                        }
                        if !new_optimistic.is_empty() {
                            vd.probe("optimistic_chosen");
                        }
                        if snap.peers.iter().filter(|p| p.interested).count() >= 11 {
                            vd.probe("rotations_with_11_or_more_interested");
                        }
                        if snap.peers.iter().any(|p| p.am_choked && p.interested) {
                            vd.probe("rotations_leaving_an_interested_peer_choked");
                        }
                        let rate = |a: &str| rates.iter().find(|(x, _)| x == a).map(|(_, r)| *r);
                        let holders: Vec<&world::PeerSnap> = snap.peers.iter().filter(|p| !p.am_choked && !p.optimistic).collect();
                        for h in &holders {
                            if !h.interested {
                                vd.fail("C14", "C14.slot-not-interested", format!("after the rotation {} holds a regular slot without having declared interest", h.addr), seq);
                            }
                        }
                        for p in &snap.peers {
                            if !p.interested && !p.am_choked {
                                vd.fail("C14", "C14.uninterested-unchoked", format!("after the rotation {} is unchoked although it is not interested", p.addr), seq);
                            }
                        }
                        for q in snap.peers.iter().filter(|p| p.am_choked && p.interested) {
                            for h in &holders {
                                if let (Some(rq), Some(rh)) = (rate(&q.addr), rate(&h.addr)) {
                                    if rq > rh {
                                        vd.fail(
                                            "C14",
                                            "C14.better-peer-choked",
                                            format!("after the rotation {} (rate {}) stays choked while {} (rate {}) holds a slot", q.addr, rq, h.addr, rh),
                                            seq,
                                        );
                                    }
                                }
                            }
                        }
                        let tied = {
                            let mut r: Vec<u32> = rates.iter().map(|x| x.1).collect();
                            r.sort();
                            r.windows(2).any(|w| w[0] == w[1])
                        };
                        if tied {
                            vd.probe("rotations_with_tied_rates");
                        }
                        observe(&mut vd, v, snap, seq, now);
                    }
                    _ => {}
                },
                _ => {}
            }
        }
        // B3: frames vs flips
        let end = v.out.end_ms;
        let last = v.out.entries.last().map(|e| e.seq).unwrap_or(0);
        let conns: BTreeSet<ConnId> = flips.keys().chain(frames.keys()).cloned().collect();
        for c in conns {
            let f = frames.get(&c).cloned().unwrap_or_default();
            let s = flips.get(&c).cloned().unwrap_or_default();
            let info = match v.conns.get(&c) {
                Some(i) => i,
                None => continue,
            };
            let show = |x: &Vec<bool>| x.iter().map(|b| if *b { "Choke" } else { "Unchoke" }).collect::<Vec<_>>().join(",");
            if f.len() > s.len() || f[..] != s[..f.len()] {
                vd.fail(
                    "C14",
                    "C14.frames-differ-from-state",
                    format!("conn {} ({}): frames written [{}] vs changes of the client's choke state [{}]", c, info.addr, show(&f), show(&s)),
                    last,
                );
            } else if f.len() < s.len() {
                let open = info.client_close.is_none() && info.peer_close.is_none();
                // a frame cannot be delivered to a peer that does not read: only connections whose
                // peer has been reading for the last second count as settled
                let settled = end >= last_flip_t.get(&c).cloned().unwrap_or(0) + 1000 && end >= v.reading_since(c).saturating_add(1000);
                if open && settled {
                    vd.fail(
                        "C14",
                        "C14.frames-missing",
                        format!("conn {} ({}): the client's state changed [{}] but only [{}] was sent", c, info.addr, show(&s), show(&f)),
                        last,
                    );
                }
            }
        }
        for (m, l) in &v.out.panics {
            if vd.inconclusive.is_none() {
                vd.inconclusive = Some(format!("{} ({} at {})", attribute_panic(m, l), m, l));
            }
        }
        vd
    }
}
