//! The explicit, serialisable description of one simulated run. Everything a run does is a
//! function of the Plan and of the code under test.

use crate::codec::Msg;
use serde::{Deserialize, Serialize};

#[derive(Clone, Debug, Serialize, Deserialize, PartialEq)]
pub struct FileSpec {
    pub path: String,
    pub len: u64,
}

#[derive(Clone, Debug, Serialize, Deserialize, PartialEq)]
pub struct Geometry {
    pub piece_len: u64,
    pub name: String,
    /// single-file layout (`length`) when true; then `files` has exactly one entry whose path is
    /// ignored in favour of `name`
    pub single: bool,
    pub files: Vec<FileSpec>,
    pub announce: String,
    /// pad string placed inside `info` (used to steer the info-hash bytes)
    pub pad: String,
    /// lengths are only declared (no content exists, nobody can serve it): lets a plan name
    /// totals of several GiB
    #[serde(default)]
    pub phantom: bool,
}

impl Geometry {
    pub fn total(&self) -> u64 {
        self.files.iter().map(|f| f.len).sum()
    }
    pub fn pieces(&self) -> usize {
        let t = self.total();
        ((t + self.piece_len - 1) / self.piece_len) as usize
    }
    pub fn piece_len_of(&self, i: usize) -> usize {
        let t = self.total();
        let start = i as u64 * self.piece_len;
        (t - start).min(self.piece_len) as usize
    }
}

#[derive(Clone, Debug, Serialize, Deserialize, PartialEq)]
pub enum Seg {
    /// every message in one segment
    Whole,
    /// each message cut at up to k random points
    Cuts(u32),
    /// cut around header fields (after 1,3,4,5 bytes and 1 before the end)
    Boundary,
    /// one byte per segment for messages up to 80 bytes, `Cuts(8)` above
    Bytewise,
    /// consecutive messages due at the same instant are glued into one segment
    Glue,
}

#[derive(Clone, Debug, Serialize, Deserialize, PartialEq)]
pub struct NetPlan {
    pub lat_min: u64,
    pub lat_max: u64,
    pub seg: Seg,
    pub short_read_pm: u32,
    pub short_write_pm: u32,
    pub yield_pm: u32,
}

impl Default for NetPlan {
    fn default() -> Self {
        NetPlan { lat_min: 1, lat_max: 1, seg: Seg::Whole, short_read_pm: 0, short_write_pm: 0, yield_pm: 0 }
    }
}

#[derive(Clone, Debug, Serialize, Deserialize, PartialEq)]
pub enum Accept {
    Accept,
    Refuse,
    Timeout(u64),
}

#[derive(Clone, Debug, Serialize, Deserialize, PartialEq)]
pub enum Hs {
    /// correct handshake: on a client-dialled connection sent after the client's handshake
    /// arrived, on a dial-in sent first
    Ok,
    /// correct handshake sent at once without waiting for the client's
    Eager,
    WrongHash,
    /// an id different from the one the tracker announced
    WrongId,
    WrongPstr,
    /// never sends a handshake by itself (a scripted `Send(Handshake)` may still do so later);
    /// the rest of the behaviour runs regardless
    Absent,
}

#[derive(Clone, Debug, Serialize, Deserialize, PartialEq)]
pub enum BitfieldMode {
    Send,
    /// advertise through individual Have messages
    AsHaves,
    /// send nothing (legal when the peer has no pieces; otherwise the peer is simply mute)
    Omit,
}

#[derive(Clone, Debug, Serialize, Deserialize, PartialEq)]
pub enum Unchoke {
    /// unchoke `0` ms after the client's Interested arrived
    OnInterested(u64),
    /// unchoke at a fixed time after the connection was established
    At(u64),
    Never,
}

#[derive(Clone, Debug, Serialize, Deserialize, PartialEq)]
pub struct Answer {
    pub delay_min: u64,
    pub delay_max: u64,
    /// answers leave in request order even when delays differ
    pub fifo: bool,
    /// per-mille chance to send an answer twice
    pub dup_pm: u32,
    /// (piece, block number) answered with a flipped byte, first time only when `once`
    pub corrupt: Vec<(u32, u32)>,
    pub corrupt_once: bool,
    /// (piece, block number) never answered
    pub withhold: Vec<(u32, u32)>,
    /// keep answering requests that were pending when we choked the client (dishonest)
    pub serve_after_choke: bool,
}

impl Default for Answer {
    fn default() -> Self {
        Answer {
            delay_min: 0,
            delay_max: 0,
            fifo: true,
            dup_pm: 0,
            corrupt: vec![],
            corrupt_once: true,
            withhold: vec![],
            serve_after_choke: false,
        }
    }
}

#[derive(Clone, Debug, Serialize, Deserialize, PartialEq)]
pub enum When {
    /// ms after the connection was established
    At(u64),
    /// `plus` ms after the `count`-th frame of `kind` from the client was received
    AfterRx { kind: String, count: u32, plus: u64 },
    /// `plus` ms after this peer has sent its `count`-th block
    AfterTxBlocks { count: u32, plus: u64 },
}

#[derive(Clone, Debug, Serialize, Deserialize, PartialEq)]
pub enum Act {
    Send(Msg),
    Raw(Vec<u8>),
    /// set our choke state and send the message (sent even when redundant)
    Choke,
    Unchoke,
    /// add the piece to what we have and announce it
    Gain(u32),
    CloseFin,
    CloseRst,
    /// stop draining what the client writes for `0` ms (client writes block)
    Stall(u64),
    /// network partition for `0` ms: nothing the peer sends is delivered and nothing the client
    /// sends is read until it heals (TCP: delayed, not lost; the client can keep writing)
    Partition(u64),
    /// stop sending anything (answers, keep-alives, scripted sends) from now on
    Silence,
    /// resume sending
    Resume,
    /// request block (index, begin, len)
    Request(u32, u32, u32),
    /// honest leecher: request up to `0` valid blocks of pieces the client has advertised so far
    /// (nothing when the client is choking us or has advertised nothing)
    RequestOwned(u32),
    /// request again the block the client served to us last (whatever the choke state)
    RepeatLast,
    /// say again what our choke state is (Choke while choking, Unchoke while not): legal and
    /// without effect on what we do
    RepeatChokeState,
}

#[derive(Clone, Debug, Serialize, Deserialize, PartialEq)]
pub struct Step {
    pub when: When,
    pub act: Act,
}

#[derive(Clone, Debug, Serialize, Deserialize, PartialEq)]
pub struct PeerPlan {
    pub name: String,
    pub addr: String,
    pub id: Vec<u8>,
    /// whether good tracker replies list this peer
    pub listed: bool,
    /// id the tracker announces for it (differs from `id` for the WrongId handshake)
    pub accept: Accept,
    pub accept_delay: u64,
    /// how many client connections this peer accepts over its life
    pub max_accepts: u32,
    /// times (ms) at which the peer dials the client; each uses source port base+k
    pub dial_in: Vec<u64>,
    /// dial in from the listening address itself (clients that bind outgoing sockets to their
    /// listening port): the client then sees the same address it may also dial itself
    #[serde(default)]
    pub dial_in_same_addr: bool,
    pub has: Vec<bool>,
    pub bitfield: BitfieldMode,
    pub hs: Hs,
    pub net: NetPlan,
    pub unchoke: Unchoke,
    pub answer: Answer,
    pub keepalive: Option<u64>,
    pub script: Vec<Step>,
    /// essential peers are never touched by fault-dropping shrink steps of the honest profile
    pub essential: bool,
    /// honest choke discipline: a scripted Choke while already choking (or Unchoke while not
    /// choking) is skipped instead of sent redundantly
    #[serde(default)]
    pub strict_choke: bool,
}

#[derive(Clone, Debug, Serialize, Deserialize, PartialEq)]
pub enum TrackerStep {
    Refused,
    Http(u16),
    Garbage(Vec<u8>),
    Failure(String),
    /// failure reason together with a peers list (must be treated as a failure: nobody listed
    /// there may be contacted)
    FailureWithPeers(String),
    /// well-formed reply without a `peers` key
    NoPeers,
    /// good reply listing the named peers (by PeerPlan.name) plus raw malformed entries
    Good { peers: Vec<String>, malformed: u32, wrong_id_for: Vec<String> },
}

#[derive(Clone, Debug, Serialize, Deserialize, PartialEq)]
pub struct TrackerPlan {
    pub steps: Vec<(u64, TrackerStep)>,
}

#[derive(Clone, Debug, Serialize, Deserialize, PartialEq)]
pub struct Plan {
    pub profile: String,
    pub seed: u64,
    pub geometry: Geometry,
    pub content_seed: u64,
    pub own_id: String,
    pub tokio_seed: u64,
    pub fs_yield_pm: u32,
    /// per-mille chance of a yield right before each channel send/receive inside rdest
    #[serde(default)]
    pub sched_yield_pm: u32,
    /// tuning knob: bounded mpsc channels inside rdest get at most this many slots
    #[serde(default)]
    pub chan_cap: Option<usize>,
    pub disk_fail_writes: Vec<u64>,
    pub disk_fail_reads: Vec<u64>,
    /// disk full: every piece write from this ordinal on fails
    #[serde(default)]
    pub disk_full_from: Option<u64>,
    /// piece files left in the directory by an earlier, interrupted run: (piece, kind) with kind
    /// 0 = complete and correct, 1 = truncated, 2 = garbage of the right length
    #[serde(default)]
    pub preexisting: Vec<(u32, u8)>,
    pub tracker: TrackerPlan,
    pub peers: Vec<PeerPlan>,
    /// virtual deadline (ms)
    pub deadline_ms: u64,
    /// end the run early once all files are extracted and this much more time passed
    pub linger_ms: u64,
    /// stop when the client has every piece and the extractor finished (C02-style goal)
    pub stop_on_done: bool,
}
