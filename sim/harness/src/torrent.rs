//! Reference torrent: content, piece hashes, metainfo bytes and info-hash, all produced by the
//! harness's own encoder.

use crate::codec::{sha1, B};
use crate::plan::Geometry;
use world::rng::Rng64;

pub struct Torrent {
    pub geometry: Geometry,
    pub bytes: Vec<u8>,
    pub info_hash: [u8; 20],
    pub content: Vec<u8>,
    pub piece_hashes: Vec<[u8; 20]>,
}

impl Torrent {
    pub fn pieces(&self) -> usize {
        self.piece_hashes.len()
    }

    pub fn piece_len(&self, i: usize) -> usize {
        self.geometry.piece_len_of(i)
    }

    pub fn piece_data(&self, i: usize) -> &[u8] {
        let start = i * self.geometry.piece_len as usize;
        &self.content[start..start + self.piece_len(i)]
    }

    /// Expected output files: (path relative to the session directory, bytes).
    pub fn expected_files(&self) -> Vec<(String, Vec<u8>)> {
        let g = &self.geometry;
        let mut out = Vec::new();
        let mut pos = 0usize;
        for f in &g.files {
            let data = self.content[pos..pos + f.len as usize].to_vec();
            pos += f.len as usize;
            let path = if g.single { g.name.clone() } else { f.path.clone() };
            out.push((path, data));
        }
        out
    }
}

pub fn info_dict(g: &Geometry, pieces_concat: Vec<u8>) -> B {
    let mut d: Vec<(Vec<u8>, B)> = Vec::new();
    if g.single {
        d.push((b"length".to_vec(), B::Int(g.files[0].len as i64)));
    } else {
        let files: Vec<B> = g
            .files
            .iter()
            .map(|f| B::Dict(vec![(b"length".to_vec(), B::Int(f.len as i64)), (b"path".to_vec(), B::s(&f.path))]))
            .collect();
        d.push((b"files".to_vec(), B::List(files)));
    }
    d.push((b"name".to_vec(), B::s(&g.name)));
    if !g.pad.is_empty() {
        d.push((b"pad".to_vec(), B::s(&g.pad)));
    }
    d.push((b"piece length".to_vec(), B::Int(g.piece_len as i64)));
    d.push((b"pieces".to_vec(), B::Str(pieces_concat)));
    B::Dict(d)
}

pub fn build(g: &Geometry, content_seed: u64) -> Torrent {
    let total = g.total() as usize;
    let n = g.pieces();
    let mut piece_hashes = Vec::with_capacity(n);
    let mut concat = Vec::with_capacity(n * 20);
    if g.phantom {
        let mut r = Rng64::sub(content_seed, "phantom-hashes");
        for _ in 0..n {
            let h = sha1(&r.bytes(8));
            concat.extend_from_slice(&h);
            piece_hashes.push(h);
        }
    }
    let content = if g.phantom { Vec::new() } else { Rng64::sub(content_seed, "content").bytes(total) };
    for i in 0..if g.phantom { 0 } else { n } {
        let start = i * g.piece_len as usize;
        let end = (start + g.piece_len as usize).min(total);
        let h = sha1(&content[start..end]);
        concat.extend_from_slice(&h);
        piece_hashes.push(h);
    }
    let info = info_dict(g, concat).encode();
    let info_hash = sha1(&info);
    let mut bytes = Vec::new();
    bytes.push(b'd');
    B::s("announce").encode_into(&mut bytes);
    B::s(&g.announce).encode_into(&mut bytes);
    B::s("info").encode_into(&mut bytes);
    bytes.extend_from_slice(&info);
    bytes.push(b'e');
    Torrent { geometry: g.clone(), bytes, info_hash, content, piece_hashes }
}
