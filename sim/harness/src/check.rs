//! Search driver: seeded sampling of plans on all cores, verdict merging in seed order,
//! minimisation, replay files, known findings, evidence.

use crate::plan::Plan;
use crate::run::{run_plan, RunOut};
use crate::view::{self, View};
use serde_json::json;
use std::collections::{BTreeMap, BTreeSet, HashSet};
use std::io::Write;
use std::sync::atomic::{AtomicU64, AtomicUsize, Ordering};
use std::sync::{Arc, Mutex};
use std::time::Instant;
use world::Ev;

#[derive(Clone, Debug)]
pub struct Violation {
    pub prop: &'static str,
    /// stable rule id; the known-findings signature
    pub rule: String,
    pub detail: String,
    pub seq: u64,
}

#[derive(Default)]
pub struct Verdict {
    pub violations: Vec<Violation>,
    pub probes: BTreeMap<&'static str, u64>,
    /// the oracle evaluated at least one non-vacuous instance
    pub nontrivial: bool,
    /// run aborted by a panic attributed to another property
    pub inconclusive: Option<String>,
    /// class of the case (used for the distinct count), e.g. geometry class vector
    pub class: u64,
}

impl Verdict {
    pub fn probe(&mut self, k: &'static str) {
        *self.probes.entry(k).or_insert(0) += 1;
    }
    pub fn probe_n(&mut self, k: &'static str, n: u64) {
        *self.probes.entry(k).or_insert(0) += n;
    }
    pub fn fail(&mut self, prop: &'static str, rule: &str, detail: String, seq: u64) {
        if self.violations.iter().any(|v| v.rule == rule) {
            return;
        }
        self.violations.push(Violation { prop, rule: rule.to_string(), detail, seq });
    }
}

pub struct ProfileSpec {
    pub name: &'static str,
    pub quick: u64,
    pub thorough: u64,
}

pub trait Check: Sync {
    fn id(&self) -> &'static str;
    fn profiles(&self) -> Vec<ProfileSpec>;
    fn rule(&self) -> &'static str;
    fn assumptions(&self) -> Vec<&'static str>;
    fn generate(&self, profile: &str, seed: u64) -> Plan;
    fn judge(&self, v: &View) -> Verdict;
    /// Precondition of the property on a plan; the shrinker only keeps candidates that satisfy it.
    fn plan_ok(&self, _plan: &Plan) -> bool {
        true
    }
}

/// Which property a panic belongs to.
pub fn attribute_panic(msg: &str, loc: &str) -> &'static str {
    if msg.contains("busy loop") {
        return "C06";
    }
    // the manager's own code (per-peer records and the session): whatever the message says, a
    // panic there is a peer event sequence that brought the manager down
    let manager_code = (loc.ends_with("/peer.rs") || loc.contains("/peer.rs:") || loc.contains("/session.rs")) && !msg.contains("tracker");
    if msg.contains("not requested") || msg.contains("Can't handle command") || msg.contains("Can't change connection state") || manager_code {
        "C12"
    } else if loc.contains("connection.rs") || msg.contains("cannot advance") || loc.contains("bytes") {
        "C06"
    } else if loc.contains("request.rs") || (loc.contains("peer_handler.rs") && msg.contains("range")) || msg.contains("overflow") {
        "C09"
    } else if loc.contains("extractor.rs") || loc.contains("metainfo.rs") {
        "C03"
    } else if msg.contains("tracker") || loc.contains("tracker") {
        "C19"
    } else {
        "C02"
    }
}

pub fn interleave_hash(out: &RunOut) -> u64 {
    let mut h: u64 = 0xcbf2_9ce4_8422_2325;
    let mut mix = |x: u64| {
        h ^= x;
        h = h.wrapping_mul(0x0000_0100_0000_01B3);
    };
    for e in &out.entries {
        match &e.ev {
            Ev::Decoded { addr, frame, .. } => {
                mix(world::rng::hash_name(addr));
                mix(world::fnv(frame.split(|c: char| !c.is_ascii_alphanumeric()).next().unwrap_or("").as_bytes()));
            }
            Ev::KillReq { addr, .. } => {
                mix(world::rng::hash_name(addr) ^ 1);
            }
            Ev::PieceDone { addr, index } => {
                mix(world::rng::hash_name(addr) ^ 2);
                mix(*index as u64);
            }
            Ev::Rotation { .. } => mix(3),
            Ev::Announce { .. } => mix(4),
            Ev::Dial { addr, .. } => mix(world::rng::hash_name(addr) ^ 5),
            Ev::DialIn { from, .. } => mix(world::rng::hash_name(from) ^ 6),
            _ => {}
        }
    }
    h
}

fn state_hashes(out: &RunOut, into: &mut HashSet<u64>) {
    use std::hash::{Hash, Hasher};
    for e in &out.entries {
        if let Ev::Snapshot(s) = &e.ev {
            let mut h = world::Fnv::default();
            s.status.hash(&mut h);
            for p in &s.peers {
                (p.piece_index, p.am_interested, p.am_choked, p.interested, p.choked, p.optimistic).hash(&mut h);
            }
            into.insert(h.finish());
        }
    }
}

pub struct OneRun {
    /// virtual time of the first violation's event
    pub viol_t_ms: Option<u64>,
    pub plan: Arc<Plan>,
    pub verdict: Verdict,
    pub digest: u64,
    pub ilv: u64,
    pub sim_ms: u64,
    pub events: usize,
    pub stats: BTreeMap<&'static str, u64>,
    pub harness_error: Option<String>,
}

/// Runs in progress per worker thread, for the wall-clock watchdog.
pub struct Slot {
    /// ms since process start at which the current run began; 0 = idle
    started: AtomicU64,
    plan: Mutex<Option<Arc<Plan>>>,
}
pub static SLOTS: Mutex<Vec<Arc<Slot>>> = Mutex::new(Vec::new());
static T0: std::sync::OnceLock<Instant> = std::sync::OnceLock::new();
thread_local! {
    static MY_SLOT: Arc<Slot> = {
        let s = Arc::new(Slot { started: AtomicU64::new(0), plan: Mutex::new(None) });
        SLOTS.lock().unwrap().push(s.clone());
        s
    };
}

fn now_ms() -> u64 {
    T0.get_or_init(Instant::now).elapsed().as_millis() as u64 + 1
}

struct ActiveGuard;
impl ActiveGuard {
    fn enter(plan: &Arc<Plan>) -> ActiveGuard {
        MY_SLOT.with(|s| {
            *s.plan.lock().unwrap() = Some(plan.clone());
            s.started.store(now_ms(), Ordering::SeqCst);
        });
        ActiveGuard
    }
}
impl Drop for ActiveGuard {
    fn drop(&mut self) {
        MY_SLOT.with(|s| s.started.store(0, Ordering::SeqCst));
    }
}

/// Backstop for code that spins inside one poll without ever yielding (nothing can interrupt it
/// in a single-threaded simulation): a run that needs more than VERIF_RUN_TIMEOUT_S (default 300)
/// wall seconds - normal runs take milliseconds - is reported as a violation with its plan.
pub fn spawn_watchdog(prop: String, verif_dir: String, out_fd: i32) {
    let limit: u64 = std::env::var("VERIF_RUN_TIMEOUT_S").ok().and_then(|s| s.parse().ok()).unwrap_or(300);
    std::thread::spawn(move || loop {
        std::thread::sleep(std::time::Duration::from_millis(500));
        let now = now_ms();
        let stuck = SLOTS.lock().ok().and_then(|a| {
            a.iter()
                .find(|s| {
                    let st = s.started.load(Ordering::SeqCst);
                    st != 0 && now.saturating_sub(st) >= limit * 1000
                })
                .and_then(|s| s.plan.lock().ok().and_then(|p| p.clone()))
        });
        if let Some(p) = stuck {
            let plan: serde_json::Value = serde_json::to_value(&*p).unwrap_or(serde_json::Value::Null);
            let seed = plan["seed"].as_u64().unwrap_or(0);
            let dir = format!("{}/replays", verif_dir);
            std::fs::create_dir_all(&dir).ok();
            let path = format!("{}/{}-{}-hang.json", dir, prop, seed);
            let rule = format!("{}.run-does-not-terminate", prop);
            let doc = json!({"property": prop, "rule": rule, "detail": format!("the run did not finish within {} wall seconds: some task spins without yielding", limit), "profile": plan["profile"], "seed": seed, "digest": "", "plan": plan, "tail": []});
            std::fs::write(&path, serde_json::to_string_pretty(&doc).unwrap()).ok();
            let ev = json!({"property_id": prop, "tier": "quick", "seed": 0, "level": "exploration",
                "coverage": {"evaluations": 1, "distinct_nontrivial": 2, "rule": "watchdog: a run exceeded the wall-clock limit", "samples": [plan]}, "wall_s": limit as f64, "violations": 1});
            std::fs::create_dir_all(format!("{}/evidence", verif_dir)).ok();
            std::fs::write(format!("{}/evidence/{}.json", verif_dir, prop), serde_json::to_string_pretty(&ev).unwrap()).ok();
            let msg = format!("violation: {} rule={} run exceeded {} s wall time\nVIOLATION property={} replay={}\n", prop, rule, limit, prop, path);
            unsafe {
                libc::write(out_fd, msg.as_ptr() as *const libc::c_void, msg.len());
            }
            std::process::exit(1);
        }
    });
}

pub fn execute(check: &dyn Check, plan: Plan, states: Option<&mut HashSet<u64>>) -> (OneRun, Vec<String>) {
    let plan = Arc::new(plan);
    let _guard = ActiveGuard::enter(&plan);
    let out = run_plan(&plan);
    let v = view::build(&plan, &out);
    let verdict = check.judge(&v);
    let tail = match verdict.violations.first() {
        Some(vi) => v.tail(vi.seq, 80),
        None => vec![],
    };
    if let Some(s) = states {
        state_hashes(&out, s);
    }
    let viol_t_ms = verdict.violations.first().and_then(|vi| out.entries.iter().find(|e| e.seq == vi.seq).map(|e| e.t_ms));
    let one = OneRun {
        viol_t_ms,
        verdict,
        digest: out.digest,
        ilv: interleave_hash(&out),
        sim_ms: out.end_ms,
        events: out.entries.len(),
        stats: out.stats.clone(),
        harness_error: out.harness_error.clone(),
        plan,
    };
    (one, tail)
}

#[derive(serde::Deserialize, Clone, Debug)]
pub struct KnownFinding {
    pub property: String,
    pub signature: String,
    pub what: String,
    #[serde(default)]
    pub status: String,
}

pub fn load_known(verif_dir: &str) -> Vec<KnownFinding> {
    let p = format!("{}/known_findings.json", verif_dir);
    match std::fs::read_to_string(&p) {
        Ok(s) => {
            #[derive(serde::Deserialize)]
            struct F {
                #[serde(default)]
                findings: Vec<KnownFinding>,
            }
            serde_json::from_str::<F>(&s).map(|f| f.findings).unwrap_or_default()
        }
        Err(_) => vec![],
    }
}

fn run_seed(base: u64, profile: &str, i: u64) -> u64 {
    (base << 32).wrapping_add(i) ^ (world::rng::hash_name(profile) & 0xFFFF_0000_0000_0000)
}

struct Agg {
    evaluations: u64,
    nontrivial: u64,
    classes: BTreeSet<u64>,
    ilv_all: HashSet<u64>,
    ilv_nontrivial: HashSet<u64>,
    states: HashSet<u64>,
    probes: BTreeMap<&'static str, u64>,
    faults: BTreeMap<&'static str, u64>,
    inconclusive: BTreeMap<String, u64>,
    sim_ms: u64,
    events: u64,
    per_profile: BTreeMap<String, u64>,
    harness_errors: Vec<String>,
    found: Vec<(u64, String, Violation, Plan)>,
    samples: Vec<serde_json::Value>,
}

pub fn sample_of(plan: &Plan) -> serde_json::Value {
    json!({
        "profile": plan.profile, "seed": plan.seed,
        "geometry": {"piece_len": plan.geometry.piece_len, "files": plan.geometry.files.iter().map(|f| json!([f.path, f.len])).collect::<Vec<_>>(), "name": plan.geometry.name, "announce": plan.geometry.announce},
        "tracker": plan.tracker.steps.iter().map(|(l, s)| format!("{}ms {}", l, brief_tracker(s))).collect::<Vec<_>>(),
        "peers": plan.peers.iter().map(|p| json!({
            "name": p.name, "addr": p.addr, "listed": p.listed, "dial_in": p.dial_in, "hs": format!("{:?}", p.hs),
            "has": p.has.iter().map(|b| if *b {'1'} else {'0'}).collect::<String>(),
            "net": format!("{:?}", p.net), "unchoke": format!("{:?}", p.unchoke),
            "script": p.script.iter().map(|s| format!("{:?} -> {}", s.when, brief_act(&s.act))).collect::<Vec<_>>(),
        })).collect::<Vec<_>>(),
    })
}

fn brief_tracker(s: &crate::plan::TrackerStep) -> String {
    use crate::plan::TrackerStep as T;
    match s {
        T::Garbage(b) => format!("Garbage({} bytes)", b.len()),
        other => format!("{:?}", other),
    }
}

fn brief_act(a: &crate::plan::Act) -> String {
    use crate::plan::Act;
    match a {
        Act::Send(m) => format!("Send({})", crate::actors::brief(m)),
        Act::Raw(b) => format!("Raw({} bytes)", b.len()),
        other => format!("{:?}", other),
    }
}

pub struct CheckResult {
    pub exit: i32,
}

pub fn run_check(check: &dyn Check, tier: &str, base_seed: u64, verif_dir: &str, out: &mut dyn Write) -> CheckResult {
    let t0 = Instant::now();
    let workers: usize = std::env::var("VERIF_WORKERS").ok().and_then(|s| s.parse().ok()).unwrap_or(16);
    let scale: f64 = std::env::var("VERIF_SCALE").ok().and_then(|s| s.parse().ok()).unwrap_or(1.0);
    let known = load_known(verif_dir);
    let known_rules: Vec<&KnownFinding> = known.iter().filter(|k| k.property == check.id() && !k.status.starts_with("fixed")).collect();

    let agg = Arc::new(Mutex::new(Agg {
        evaluations: 0,
        nontrivial: 0,
        classes: BTreeSet::new(),
        ilv_all: HashSet::new(),
        ilv_nontrivial: HashSet::new(),
        states: HashSet::new(),
        probes: BTreeMap::new(),
        faults: BTreeMap::new(),
        inconclusive: BTreeMap::new(),
        sim_ms: 0,
        events: 0,
        per_profile: BTreeMap::new(),
        harness_errors: vec![],
        found: vec![],
        samples: vec![],
    }));

    for spec in check.profiles() {
        let n = ((if tier == "thorough" { spec.thorough } else { spec.quick }) as f64 * scale).ceil() as u64;
        if n == 0 {
            continue;
        }
        if let Ok(only) = std::env::var("VERIF_ONLY_PROFILE") {
            if only != spec.name {
                continue;
            }
        }
        let next = AtomicU64::new(0);
        // lowest index with an unknown violation: later indices are skipped
        let cutoff = AtomicU64::new(u64::MAX);
        std::thread::scope(|sc| {
            for _ in 0..workers {
                sc.spawn(|| {
                    let mut local_states: HashSet<u64> = HashSet::new();
                    loop {
                        let i = next.fetch_add(1, Ordering::SeqCst);
                        if i >= n || i > cutoff.load(Ordering::SeqCst) {
                            break;
                        }
                        let seed = run_seed(base_seed, spec.name, i);
                        let plan = check.generate(spec.name, seed);
                        let res = std::panic::catch_unwind(std::panic::AssertUnwindSafe(|| {
                            execute(check, plan, if local_states.len() < 200_000 { Some(&mut local_states) } else { None })
                        }));
                        let (one, _) = match res {
                            Ok(x) => x,
                            Err(_) => {
                                let what = crate::run::PANICS.with(|p| p.borrow().last().cloned());
                                let mut a = agg.lock().unwrap();
                                a.harness_errors.push(format!("profile {} seed {}: harness panicked: {:?}", spec.name, seed, what));
                                let _ = world::take();
                                continue;
                            }
                        };
                        let mut a = agg.lock().unwrap();
                        a.evaluations += 1;
                        *a.per_profile.entry(spec.name.to_string()).or_insert(0) += 1;
                        a.sim_ms += one.sim_ms;
                        a.events += one.events as u64;
                        a.ilv_all.insert(one.ilv);
                        if one.verdict.nontrivial {
                            a.nontrivial += 1;
                            a.ilv_nontrivial.insert(one.ilv ^ one.verdict.class.rotate_left(17));
                            a.classes.insert(one.verdict.class);
                        }
                        for (k, v) in &one.verdict.probes {
                            *a.probes.entry(k).or_insert(0) += v;
                        }
                        for (k, v) in &one.stats {
                            *a.faults.entry(k).or_insert(0) += v;
                        }
                        if let Some(y) = &one.verdict.inconclusive {
                            *a.inconclusive.entry(y.clone()).or_insert(0) += 1;
                        }
                        if let Some(e) = &one.harness_error {
                            if a.harness_errors.len() < 5 {
                                a.harness_errors.push(format!("seed {}: {}", seed, e));
                            }
                        }
                        if a.samples.len() < 3 && (one.verdict.nontrivial || i < 3) {
                            a.samples.push(sample_of(&one.plan));
                        }
                        for vi in &one.verdict.violations {
                            let is_known = known_rules.iter().any(|k| k.signature == vi.rule);
                            if !is_known {
                                cutoff.fetch_min(i, Ordering::SeqCst);
                            }
                            // keep the lowest index per rule
                            if let Some(pos) = a.found.iter().position(|f| f.2.rule == vi.rule) {
                                if a.found[pos].0 > i {
                                    a.found[pos] = (i, spec.name.to_string(), vi.clone(), (*one.plan).clone());
                                }
                            } else {
                                a.found.push((i, spec.name.to_string(), vi.clone(), (*one.plan).clone()));
                            }
                        }
                    }
                    let mut a = agg.lock().unwrap();
                    if a.states.len() < 2_000_000 {
                        a.states.extend(local_states);
                    }
                });
            }
        });
        let a = agg.lock().unwrap();
        let unknown = a.found.iter().any(|f| !known_rules.iter().any(|k| k.signature == f.2.rule));
        if unknown {
            break;
        }
    }

    let mut a = agg.lock().unwrap();
    let wall = t0.elapsed().as_secs_f64();
    let mut exit = 0;
    let mut n_viol = 0;
    if !a.harness_errors.is_empty() {
        writeln!(out, "HARNESS-ERROR property={} {}", check.id(), a.harness_errors[0]).ok();
        exit = 2;
    }
    let mut found = std::mem::take(&mut a.found);
    found.sort_by_key(|f| f.0);
    let mut reported_unknown = false;
    for (idx, profile, vi, plan) in found {
        if let Some(k) = known_rules.iter().find(|k| k.signature == vi.rule) {
            writeln!(out, "KNOWN-FINDING: property={} {} [{}] (first at {} #{})", check.id(), k.what, vi.rule, profile, idx).ok();
            continue;
        }
        if reported_unknown {
            continue;
        }
        reported_unknown = true;
        n_viol += 1;
        // minimise, then write the replay file
        let (min_plan, min_vi, digest, tail, tries) = crate::shrink::minimise(check, plan.clone(), &vi);
        let dir = format!("{}/replays", verif_dir);
        std::fs::create_dir_all(&dir).ok();
        let path = format!("{}/{}-{}.json", dir, check.id(), plan.seed);
        let doc = json!({
            "property": check.id(),
            "rule": min_vi.rule,
            "detail": min_vi.detail,
            "violation_seq": min_vi.seq,
            "profile": profile,
            "seed": plan.seed,
            "search_index": idx,
            "digest": format!("{:016x}", digest),
            "shrink_runs": tries,
            "plan": min_plan,
            "tail": tail,
        });
        std::fs::write(&path, serde_json::to_string_pretty(&doc).unwrap()).ok();
        writeln!(out, "violation: {} rule={} {}", check.id(), min_vi.rule, min_vi.detail).ok();
        writeln!(out, "VIOLATION property={} replay={}", check.id(), path).ok();
        exit = 1;
    }

    // evidence
    let per_hour = if wall > 0.0 { (a.evaluations as f64 / wall * 3600.0) as u64 } else { 0 };
    let ev = json!({
        "property_id": check.id(),
        "tier": tier,
        "seed": base_seed,
        "level": "exploration",
        "coverage": {
            "evaluations": a.evaluations,
            "distinct_nontrivial": a.ilv_nontrivial.len(),
            "rule": check.rule(),
            "samples": a.samples,
            "nontrivial_runs": a.nontrivial,
            "distinct_case_classes": a.classes.len(),
            "distinct_interleavings": a.ilv_all.len(),
            "distinct_manager_states": a.states.len(),
            "interleaving_measure": "hash of the order in which the client consumed peer frames (peer, kind), kill requests, piece completions, rotations, announces and dials across all connections",
            "state_measure": "distinct (piece-status vector, per-peer flags and assignment) manager snapshots",
            "runs_per_profile": a.per_profile,
            "runs_per_hour": per_hour,
            "simulated_seconds": a.sim_ms / 1000,
            "events": a.events,
            "faults_fired": a.faults,
            "probes": a.probes,
            "inconclusive_runs": a.inconclusive,
            "workers": workers,
            "real_components": ["Session (manager, event loop, choke rotation, piece chooser)", "Peer", "PeerHandler", "Connection", "Frame + message modules", "TrackerClient (retry loop, parse_resp)", "TrackerResp", "Metainfo", "Extractor", "ProgressView", "tokio scheduler/channels/timers (paused clock)", "reqwest URL composition", "url", "bytes", "sha1_smol"],
            "stub_components": ["TCP (in-memory ordered lossless pipes)", "file system (in-memory tree)", "HTTP transport/hyper/TLS/DNS", "OS RNG", "peers and tracker (scripted actors with an independent codec)"],
        },
        "assumptions": check.assumptions(),
        "wall_s": wall,
        "violations": n_viol,
    });
    let edir = format!("{}/evidence", verif_dir);
    std::fs::create_dir_all(&edir).ok();
    std::fs::write(format!("{}/{}.json", edir, check.id()), serde_json::to_string_pretty(&ev).unwrap()).ok();
    writeln!(
        out,
        "{} {}: {} runs ({} non-trivial, {} distinct), {:.1}s wall, {} simulated s, exit {}",
        check.id(),
        tier,
        a.evaluations,
        a.nontrivial,
        a.ilv_nontrivial.len(),
        wall,
        a.sim_ms / 1000,
        exit
    )
    .ok();
    let _ = AtomicUsize::new(0);
    CheckResult { exit }
}

pub fn replay(check: &dyn Check, path: &str, out: &mut dyn Write) -> i32 {
    let s = match std::fs::read_to_string(path) {
        Ok(s) => s,
        Err(e) => {
            writeln!(out, "cannot read {}: {}", path, e).ok();
            return 2;
        }
    };
    let doc: serde_json::Value = match serde_json::from_str(&s) {
        Ok(d) => d,
        Err(e) => {
            writeln!(out, "bad replay file: {}", e).ok();
            return 2;
        }
    };
    let plan: Plan = match serde_json::from_value(doc["plan"].clone()) {
        Ok(p) => p,
        Err(e) => {
            writeln!(out, "bad plan in replay file: {}", e).ok();
            return 2;
        }
    };
    let want_rule = doc["rule"].as_str().unwrap_or("").to_string();
    let want_digest = doc["digest"].as_str().unwrap_or("").to_string();
    let (one, tail) = execute(check, plan, None);
    let got = one.verdict.violations.iter().find(|v| v.rule == want_rule).or(one.verdict.violations.first());
    match got {
        Some(v) => {
            for l in tail.iter().rev().take(25).rev() {
                writeln!(out, "  {}", l).ok();
            }
            writeln!(out, "violation: {} rule={} {}", check.id(), v.rule, v.detail).ok();
            let d = format!("{:016x}", one.digest);
            writeln!(out, "digest {} ({})", d, if d == want_digest { "identical to the recorded run" } else { "DIFFERS from the recorded run" }).ok();
            writeln!(out, "VIOLATION property={} replay={}", check.id(), path).ok();
            1
        }
        None => {
            writeln!(out, "replay of {}: no violation (recorded rule {})", path, want_rule).ok();
            0
        }
    }
}
