//! Independent BEP3 wire codec and bencode encoder (never rdest's own Serializer/BEncoder, so a
//! symmetric encode/decode bug in rdest cannot cancel out).

use serde::{Deserialize, Serialize};

pub const PSTR: &[u8; 19] = b"BitTorrent protocol";
pub const MAX_FRAME: usize = 65536;
pub const BLOCK: usize = 16384;

#[derive(Clone, Debug, PartialEq, Eq, Serialize, Deserialize)]
pub enum Msg {
    Handshake { pstr: Vec<u8>, reserved: Vec<u8>, info_hash: Vec<u8>, peer_id: Vec<u8> },
    KeepAlive,
    Choke,
    Unchoke,
    Interested,
    NotInterested,
    Have(u32),
    Bitfield(Vec<u8>),
    Request { index: u32, begin: u32, len: u32 },
    Piece { index: u32, begin: u32, block: Vec<u8> },
    Cancel { index: u32, begin: u32, len: u32 },
    Unknown { id: u8, payload: Vec<u8> },
}

impl Msg {
    pub fn handshake(info_hash: &[u8; 20], peer_id: &[u8; 20]) -> Msg {
        Msg::Handshake { pstr: PSTR.to_vec(), reserved: vec![0; 8], info_hash: info_hash.to_vec(), peer_id: peer_id.to_vec() }
    }

    pub fn kind(&self) -> &'static str {
        match self {
            Msg::Handshake { .. } => "Handshake",
            Msg::KeepAlive => "KeepAlive",
            Msg::Choke => "Choke",
            Msg::Unchoke => "Unchoke",
            Msg::Interested => "Interested",
            Msg::NotInterested => "NotInterested",
            Msg::Have(_) => "Have",
            Msg::Bitfield(_) => "Bitfield",
            Msg::Request { .. } => "Request",
            Msg::Piece { .. } => "Piece",
            Msg::Cancel { .. } => "Cancel",
            Msg::Unknown { .. } => "Unknown",
        }
    }

    pub fn encode(&self) -> Vec<u8> {
        fn framed(id: u8, payload: &[u8]) -> Vec<u8> {
            let mut v = Vec::with_capacity(5 + payload.len());
            v.extend_from_slice(&((1 + payload.len()) as u32).to_be_bytes());
            v.push(id);
            v.extend_from_slice(payload);
            v
        }
        fn three(id: u8, a: u32, b: u32, c: u32) -> Vec<u8> {
            let mut p = Vec::with_capacity(12);
            p.extend_from_slice(&a.to_be_bytes());
            p.extend_from_slice(&b.to_be_bytes());
            p.extend_from_slice(&c.to_be_bytes());
            framed(id, &p)
        }
        match self {
            Msg::Handshake { pstr, reserved, info_hash, peer_id } => {
                let mut v = vec![pstr.len() as u8];
                v.extend_from_slice(pstr);
                v.extend_from_slice(reserved);
                v.extend_from_slice(info_hash);
                v.extend_from_slice(peer_id);
                v
            }
            Msg::KeepAlive => vec![0, 0, 0, 0],
            Msg::Choke => framed(0, &[]),
            Msg::Unchoke => framed(1, &[]),
            Msg::Interested => framed(2, &[]),
            Msg::NotInterested => framed(3, &[]),
            Msg::Have(i) => framed(4, &i.to_be_bytes()),
            Msg::Bitfield(b) => framed(5, b),
            Msg::Request { index, begin, len } => three(6, *index, *begin, *len),
            Msg::Piece { index, begin, block } => {
                let mut p = Vec::with_capacity(8 + block.len());
                p.extend_from_slice(&index.to_be_bytes());
                p.extend_from_slice(&begin.to_be_bytes());
                p.extend_from_slice(block);
                framed(7, &p)
            }
            Msg::Cancel { index, begin, len } => three(8, *index, *begin, *len),
            Msg::Unknown { id, payload } => framed(*id, payload),
        }
    }

    /// Normal form comparable with `norm_debug` of rdest's rendering of the same frame.
    pub fn norm(&self) -> Option<(String, Vec<u64>)> {
        let v = |b: &[u8]| b.iter().map(|x| *x as u64).collect::<Vec<u64>>();
        Some(match self {
            Msg::Handshake { info_hash, peer_id, .. } => {
                let mut n = v(info_hash);
                n.extend(v(peer_id));
                ("Handshake".into(), n)
            }
            Msg::KeepAlive => ("KeepAlive".into(), vec![]),
            Msg::Choke => ("Choke".into(), vec![]),
            Msg::Unchoke => ("Unchoke".into(), vec![]),
            Msg::Interested => ("Interested".into(), vec![]),
            Msg::NotInterested => ("NotInterested".into(), vec![]),
            Msg::Have(i) => ("Have".into(), vec![*i as u64]),
            Msg::Bitfield(b) => ("Bitfield".into(), v(b)),
            Msg::Request { index, begin, len } => ("Request".into(), vec![*index as u64, *begin as u64, *len as u64]),
            Msg::Cancel { index, begin, len } => ("Cancel".into(), vec![*index as u64, *begin as u64, *len as u64]),
            Msg::Piece { index, begin, block } => {
                ("Piece".into(), vec![*index as u64, *begin as u64, block.len() as u64, world::fnv(block)])
            }
            Msg::Unknown { .. } => return None,
        })
    }
}

/// Normal form of a frame rendered by the `decoded` hook: variant name + every integer token in
/// order (robust against field renames in rdest).
pub fn norm_debug(s: &str) -> (String, Vec<u64>) {
    let name: String = s.chars().take_while(|c| c.is_ascii_alphanumeric()).collect();
    let mut nums = Vec::new();
    let mut cur: Option<u64> = None;
    let mut prev_alpha = false;
    for c in s.chars() {
        if let Some(d) = c.to_digit(10) {
            if cur.is_none() && prev_alpha {
                // digit glued to an identifier: not a number token
                continue;
            }
            cur = Some(cur.unwrap_or(0).wrapping_mul(10).wrapping_add(d as u64));
            prev_alpha = false;
        } else {
            if let Some(n) = cur.take() {
                nums.push(n);
            }
            prev_alpha = c.is_ascii_alphabetic() || c == '_';
        }
    }
    if let Some(n) = cur {
        nums.push(n);
    }
    (name, nums)
}

#[derive(Clone, Debug, PartialEq, Eq)]
pub enum Fatal {
    TooLarge,
    BadFixedLen,
    BadPstr,
}

#[derive(Clone, Debug, PartialEq, Eq)]
pub enum Item {
    Msg(Msg),
    /// complete message with an id the client does not know: skipped, nothing delivered
    Skipped { id: u8, total: usize },
}

/// Incremental reference decoder with rdest's framing conventions made explicit:
/// * a frame whose 5th byte is 84 ('T') is a handshake (68 bytes, first byte 19, pstr exact);
/// * length 0 is a keep-alive; length > 64 KiB is fatal for every other id;
/// * ids 0-3 need length 1, id 4 length 5, ids 6/8 length 13, id 7 length >= 9 (else fatal);
/// * any other id is skipped once its 4+len bytes are present.
#[derive(Default)]
pub struct StreamDecoder {
    pub buf: Vec<u8>,
    pub consumed: usize,
    pub fatal: Option<Fatal>,
}

impl StreamDecoder {
    pub fn push(&mut self, bytes: &[u8]) {
        self.buf.extend_from_slice(bytes);
    }

    /// Next complete item, `None` when more bytes are needed or the stream is fatally broken.
    pub fn next(&mut self) -> Option<Item> {
        if self.fatal.is_some() {
            return None;
        }
        let b = &self.buf;
        if b.len() < 4 {
            return None;
        }
        let len = u32::from_be_bytes([b[0], b[1], b[2], b[3]]) as usize;
        if len == 0 {
            self.eat(4);
            return Some(Item::Msg(Msg::KeepAlive));
        }
        if b.len() < 5 {
            return None;
        }
        let id = b[4];
        if id == 84 {
            if b[0] != 19 {
                self.fatal = Some(Fatal::BadPstr);
                return None;
            }
            if b.len() < 68 {
                return None;
            }
            if &b[1..20] != PSTR {
                self.fatal = Some(Fatal::BadPstr);
                return None;
            }
            let m = Msg::Handshake {
                pstr: b[1..20].to_vec(),
                reserved: b[20..28].to_vec(),
                info_hash: b[28..48].to_vec(),
                peer_id: b[48..68].to_vec(),
            };
            self.eat(68);
            return Some(Item::Msg(m));
        }
        if len > MAX_FRAME {
            self.fatal = Some(Fatal::TooLarge);
            return None;
        }
        let fixed = match id {
            0..=3 => Some(1),
            4 => Some(5),
            6 | 8 => Some(13),
            _ => None,
        };
        if let Some(f) = fixed {
            if len != f {
                self.fatal = Some(Fatal::BadFixedLen);
                return None;
            }
        }
        if id == 7 && len < 9 {
            self.fatal = Some(Fatal::BadFixedLen);
            return None;
        }
        if b.len() < 4 + len {
            return None;
        }
        let p = &b[5..4 + len];
        let u = |o: usize| u32::from_be_bytes([p[o], p[o + 1], p[o + 2], p[o + 3]]);
        let item = match id {
            0 => Item::Msg(Msg::Choke),
            1 => Item::Msg(Msg::Unchoke),
            2 => Item::Msg(Msg::Interested),
            3 => Item::Msg(Msg::NotInterested),
            4 => Item::Msg(Msg::Have(u(0))),
            5 => Item::Msg(Msg::Bitfield(p.to_vec())),
            6 => Item::Msg(Msg::Request { index: u(0), begin: u(4), len: u(8) }),
            7 => Item::Msg(Msg::Piece { index: u(0), begin: u(4), block: p[8..].to_vec() }),
            8 => Item::Msg(Msg::Cancel { index: u(0), begin: u(4), len: u(8) }),
            _ => Item::Skipped { id, total: 4 + len },
        };
        self.eat(4 + len);
        Some(item)
    }

    /// True when a partial (non-fatal) message is buffered.
    pub fn partial(&self) -> bool {
        self.fatal.is_none() && !self.buf.is_empty()
    }

    /// The bytes seen so far cannot be continued into a well-formed stream: the verdict is in,
    /// or every possible continuation of the incomplete head ends in one. A decoder may give up
    /// at any point from here on.
    pub fn doomed(&self) -> bool {
        if self.fatal.is_some() {
            return true;
        }
        let b = &self.buf;
        if b.len() < 4 {
            return false;
        }
        let len = u32::from_be_bytes([b[0], b[1], b[2], b[3]]) as usize;
        if b.len() == 4 {
            // oversized whatever the id turns out to be: only a handshake is exempt from the size
            // limit, and a handshake starts with 19 'B' 'i' 't'
            return len > MAX_FRAME && b[..4] != [19, b'B', b'i', b't'];
        }
        if b[4] == 84 && b[0] == 19 {
            // handshake in progress: a protocol string that already deviates
            let k = b.len().min(20);
            return b[1..k] != PSTR[..k - 1];
        }
        false
    }

    fn eat(&mut self, n: usize) {
        self.buf.drain(..n);
        self.consumed += n;
    }
}

// ---------------------------------------------------------------------------------------------
// bencode

#[derive(Clone, Debug)]
pub enum B {
    Int(i64),
    Str(Vec<u8>),
    List(Vec<B>),
    /// encoded in the given order (callers keep keys sorted when they want canonical output)
    Dict(Vec<(Vec<u8>, B)>),
}

impl B {
    pub fn s(x: &str) -> B {
        B::Str(x.as_bytes().to_vec())
    }

    pub fn encode_into(&self, out: &mut Vec<u8>) {
        match self {
            B::Int(i) => {
                out.push(b'i');
                out.extend_from_slice(i.to_string().as_bytes());
                out.push(b'e');
            }
            B::Str(s) => {
                out.extend_from_slice(s.len().to_string().as_bytes());
                out.push(b':');
                out.extend_from_slice(s);
            }
            B::List(l) => {
                out.push(b'l');
                for x in l {
                    x.encode_into(out);
                }
                out.push(b'e');
            }
            B::Dict(d) => {
                out.push(b'd');
                for (k, v) in d {
                    B::Str(k.clone()).encode_into(out);
                    v.encode_into(out);
                }
                out.push(b'e');
            }
        }
    }

    pub fn encode(&self) -> Vec<u8> {
        let mut v = Vec::new();
        self.encode_into(&mut v);
        v
    }
}

pub fn sha1(data: &[u8]) -> [u8; 20] {
    let mut h = sha1_smol::Sha1::new();
    h.update(data);
    h.digest().bytes()
}

pub fn hex_upper(b: &[u8]) -> String {
    b.iter().map(|x| format!("{:02X}", x)).collect()
}

pub fn bitfield_bytes(has: &[bool]) -> Vec<u8> {
    let mut v = vec![0u8; (has.len() + 7) / 8];
    for (i, h) in has.iter().enumerate() {
        if *h {
            v[i / 8] |= 0x80 >> (i % 8);
        }
    }
    v
}

pub fn bitfield_bits(bytes: &[u8], n: usize) -> Vec<bool> {
    (0..n).map(|i| bytes.get(i / 8).map(|b| b & (0x80 >> (i % 8)) != 0).unwrap_or(false)).collect()
}
