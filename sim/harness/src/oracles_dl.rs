//! Oracles for the download-centric properties: C02 (honest swarm completes), C03 (geometry),
//! C04 (no path escape), C18 (announce request).

use crate::check::{attribute_panic, Check, ProfileSpec, Verdict};
use crate::codec::{hex_upper, sha1};
use crate::gen;
use crate::plan::Plan;
use crate::run::End;
use crate::view::View;
use std::hash::{Hash, Hasher};
use world::{DiskOp, Ev};

pub fn hash_of<T: Hash>(t: &T) -> u64 {
    let mut h = world::Fnv::default();
    t.hash(&mut h);
    h.finish()
}

/// Per-file geometry class: (start aligned, end aligned, pieces spanned 0/1/2+, zero length).
pub fn geometry_class(plan: &Plan) -> u64 {
    let g = &plan.geometry;
    let mut pos = 0u64;
    let mut v = Vec::new();
    for f in &g.files {
        let (s, e) = (pos, pos + f.len);
        let span = if f.len == 0 { 0 } else { ((e - 1) / g.piece_len - s / g.piece_len + 1).min(3) };
        v.push((s % g.piece_len == 0, e % g.piece_len == 0, span, f.len == 0));
        pos = e;
    }
    hash_of(&(v, g.single, g.total() % g.piece_len == 0))
}

pub struct FileReport {
    pub all_ok: bool,
    pub extraction_started: bool,
    pub detail: String,
    pub pieces_stored: usize,
}

pub fn file_report(v: &View) -> FileReport {
    let t = &v.out.torrent;
    let g = &t.geometry;
    let cwd = "/sim/cwd";
    // content based: how the client names its piece files is its own business
    let on_disk: std::collections::BTreeSet<[u8; 20]> = v.out.files.values().map(|d| sha1(d)).collect();
    let pieces_stored = (0..t.pieces()).filter(|i| on_disk.contains(&t.piece_hashes[*i])).count();
    let extraction_started = v.out.entries.iter().any(|e| matches!(&e.ev, Ev::Disk { op: DiskOp::Create, .. } | Ev::Disk { op: DiskOp::Mkdir, .. }));
    let mut all_ok = true;
    let mut detail = String::new();
    let mut pos = 0usize;
    for (k, f) in g.files.iter().enumerate() {
        let want = &t.content[pos..pos + f.len as usize];
        let start = pos;
        pos += f.len as usize;
        let mut cands = Vec::new();
        if g.single {
            cands.push(format!("{}/{}", cwd, g.name));
        } else {
            cands.push(format!("{}/{}/{}", cwd, g.name, f.path));
            if g.files.len() == 1 {
                cands.push(format!("{}/{}", cwd, f.path));
            }
        }
        let got = cands.iter().filter_map(|c| v.out.files.get(&norm(c))).next();
        let ok = got.map(|d| d.as_slice() == want).unwrap_or(false);
        if !ok && all_ok {
            all_ok = false;
            let pl = g.piece_len as usize;
            detail = format!(
                "file #{} {:?} (offset {} = piece {}+{}, len {}, piece_len {}): {}",
                k,
                f.path,
                start,
                start / pl,
                start % pl,
                f.len,
                pl,
                match got {
                    None => "missing".to_string(),
                    Some(d) if d.len() != want.len() => format!("length {} instead of {}", d.len(), want.len()),
                    Some(d) => {
                        let at = d.iter().zip(want.iter()).position(|(a, b)| a != b).unwrap_or(0);
                        format!("content differs from byte {}", at)
                    }
                }
            );
        }
    }
    FileReport { all_ok, extraction_started, detail, pieces_stored }
}

fn norm(p: &str) -> String {
    let mut parts: Vec<&str> = Vec::new();
    for c in p.split('/') {
        match c {
            "" | "." => {}
            ".." => {
                parts.pop();
            }
            x => parts.push(x),
        }
    }
    format!("/{}", parts.join("/"))
}

/// The manager handled a kill request after every piece had been completed: this is the one
/// place where rdest starts the extractor.
pub fn extraction_triggered(v: &View) -> bool {
    let n = v.out.torrent.pieces();
    let mut done = std::collections::BTreeSet::new();
    for e in &v.out.entries {
        match &e.ev {
            Ev::PieceDone { index, .. } => {
                done.insert(*index);
            }
            Ev::KillReq { .. } if done.len() == n => return true,
            _ => {}
        }
    }
    false
}

pub fn first_panic(v: &View) -> Option<(String, String, &'static str)> {
    v.out.panics.first().map(|(m, l)| (m.clone(), l.clone(), attribute_panic(m, l)))
}

// ---------------------------------------------------------------------------------------------

pub struct C02;

impl Check for C02 {
    fn id(&self) -> &'static str {
        "C02"
    }
    fn profiles(&self) -> Vec<ProfileSpec> {
        vec![ProfileSpec { name: "honest-swarm", quick: 15_000, thorough: 1_000_000 }]
    }
    fn rule(&self) -> &'static str {
        "profile honest-swarm: 1-4 essential honest peers covering all pieces + 0-8 other honest peers (never unchoking, flapping, refusing, disconnecting Fin/Rst/mid-frame, partial seeds, dial-in leechers), random geometry, latencies, segmentation, short reads/writes, yields. Non-trivial: a run with >= 2 peers or at least one injected disconnect/refusal/choke flap. Distinct: distinct (interleaving hash, geometry class) among non-trivial runs."
    }
    fn assumptions(&self) -> Vec<&'static str> {
        vec![
            "completion bound 3600 virtual s after start (all scripted faults end before 600 s)",
            "honest peers as defined in DESIGN.md 4.2; non-essential peers only disconnect, refuse, stay choked, flap finitely or are slow",
            "single-threaded FIFO executor with seeded select!/latency/yield perturbation (DESIGN.md 9)",
        ]
    }
    fn generate(&self, profile: &str, seed: u64) -> Plan {
        gen::generate(profile, seed).expect("profile")
    }
    /// The honest-swarm precondition: every piece is offered (from the start or through a later
    /// Have) by an essential peer, i.e. one that is listed, accepts connections, unchokes and
    /// never leaves by itself.
    fn plan_ok(&self, plan: &Plan) -> bool {
        use crate::plan::{Accept, Act, Unchoke};
        let n = plan.geometry.pieces();
        let listed: Vec<String> = plan
            .tracker
            .steps
            .iter()
            .filter_map(|(_, s)| match s {
                crate::plan::TrackerStep::Good { peers, .. } => Some(peers.clone()),
                _ => None,
            })
            .flatten()
            .collect();
        (0..n).all(|i| {
            plan.peers.iter().any(|p| {
                p.essential
                    && p.listed
                    && listed.contains(&p.name)
                    && p.accept == Accept::Accept
                    && p.unchoke != Unchoke::Never
                    && p.max_accepts >= 100_000
                    && !p.script.iter().any(|s| matches!(s.act, Act::CloseFin | Act::CloseRst | Act::Silence | Act::Stall(_)))
                    && (p.has.get(i).cloned().unwrap_or(false) || p.script.iter().any(|s| s.act == Act::Gain(i as u32)))
            })
        })
    }
    fn judge(&self, v: &View) -> Verdict {
        let mut vd = Verdict::default();
        let s = &v.out.stats;
        let faults = ["peer_rst", "peer_fin", "connect_refused", "connect_timeout"].iter().map(|k| s.get(k).cloned().unwrap_or(0)).sum::<u64>();
        vd.nontrivial = v.plan.peers.len() >= 2 || faults > 0;
        vd.class = geometry_class(v.plan);
        if faults > 0 {
            vd.probe("run_with_disconnect_or_refusal");
        }
        if v.out.entries.iter().any(|e| matches!(&e.ev, Ev::Pick { snap, .. } if snap.status.iter().filter(|x| **x != -1).count() < 10 && snap.status.len() >= 10)) {
            vd.probe("end_game_entered");
        }
        if let Some((m, l, _)) = first_panic(v) {
            let seq = v.out.entries.last().map(|e| e.seq).unwrap_or(0);
            vd.fail("C02", &format!("C02.panic:{}", panic_class(&m)), format!("panic in an honest swarm: {:?} at {}", m, l), seq);
        }
        if v.out.end == End::SessionReturned || v.out.end == End::SessionPanicked {
            let seq = v.out.entries.last().map(|e| e.seq).unwrap_or(0);
            vd.fail("C02", "C02.session-ended", format!("session ended: {:?}", v.out.end), seq);
        }
        let fr = file_report(v);
        if !fr.all_ok {
            let seq = v.out.entries.last().map(|e| e.seq).unwrap_or(0);
            let n = v.out.torrent.pieces();
            if fr.pieces_stored < n {
                vd.fail(
                    "C02",
                    "C02.stuck-download",
                    format!("after {} virtual s only {}/{} pieces stored ({})", v.out.end_ms / 1000, fr.pieces_stored, n, fr.detail),
                    seq,
                );
            } else if !fr.extraction_started {
                vd.fail("C02", "C02.no-extraction", format!("all {} pieces stored but the output files were never written", n), seq);
            } else {
                vd.fail("C02", "C02.files-wrong", fr.detail, seq);
            }
        }
        vd
    }
}

pub fn panic_class(m: &str) -> String {
    let s: String = m.chars().filter(|c| c.is_ascii_alphabetic() || *c == ' ').take(48).collect();
    s.trim().replace(' ', "-")
}

// ---------------------------------------------------------------------------------------------

pub struct C03;

impl Check for C03 {
    fn id(&self) -> &'static str {
        "C03"
    }
    fn profiles(&self) -> Vec<ProfileSpec> {
        vec![
            ProfileSpec { name: "geometry", quick: 50_000, thorough: 3_750_000 },
            // lengths that cannot be downloaded here (several GiB): what the client believes each
            // piece to be long
            ProfileSpec { name: "phantom-piece", quick: 1500, thorough: 100_000 },
        ]
    }
    fn rule(&self) -> &'static str {
        "profile geometry: one honest seeder, no faults; piece length 1..600 (and special values) x 1-8 files with zero-length files, files inside one piece, boundaries on/off piece edges, short/full last piece, single/multi layout; end-to-end through the real download and the real extractor. Non-trivial: extraction ran. Distinct: distinct vectors of per-file classes (start aligned, end aligned, pieces spanned 0/1/2+, zero length) x interleaving hash."
    }
    fn assumptions(&self) -> Vec<&'static str> {
        vec![
            "configuration dimension only: the schedule adds nothing to this property (DESIGN.md 8 C03)",
            "rdest dialect of multi-file metainfo (path is a byte string)",
            "a 1-entry files list is accepted at name/path or path",
        ]
    }
    fn generate(&self, profile: &str, seed: u64) -> Plan {
        gen::generate(profile, seed).expect("profile")
    }
    fn judge(&self, v: &View) -> Verdict {
        let mut vd = Verdict::default();
        vd.class = geometry_class(v.plan);
        let t = &v.out.torrent;
        let last_seq = v.out.entries.last().map(|e| e.seq).unwrap_or(0);
        if v.plan.profile == "phantom-piece" {
            // the partition half of the property: every piece the client sets out to fetch has the
            // length the geometry gives it (content cannot be served at these sizes)
            let g = &v.plan.geometry;
            vd.class = hash_of(&(g.piece_len, g.total(), g.files.len()));
            for e in &v.out.entries {
                if let Ev::Assigned { index, len, addr } = &e.ev {
                    vd.nontrivial = true;
                    if *index + 1 == g.pieces() {
                        vd.probe("last_piece_assigned");
                    }
                    if g.total() >= 1 << 32 {
                        vd.probe("total_beyond_32_bits");
                    }
                    if *index >= g.pieces() || *len != g.piece_len_of(*index) {
                        vd.fail(
                            "C03",
                            "C03.piece-length",
                            format!("{} is asked for piece {} as {} bytes; piece length {} and total {} make it {} bytes", addr, index, len, g.piece_len, g.total(), g.piece_len_of((*index).min(g.pieces() - 1))),
                            e.seq,
                        );
                    }
                }
            }
            for (m, l) in &v.out.panics {
                vd.fail("C03", "C03.panic", format!("{:?} at {}", m, l), last_seq);
            }
            return vd;
        }
        if let Some((m, l, who)) = first_panic(v) {
            if who == "C03" {
                vd.fail("C03", "C03.panic", format!("{:?} at {}", m, l), last_seq);
            } else {
                vd.inconclusive = Some(who.to_string());
                return vd;
            }
        }
        let fr = file_report(v);
        if !fr.extraction_started {
            vd.inconclusive = Some("download did not finish".into());
            return vd;
        }
        vd.nontrivial = true;
        if v.plan.geometry.files.iter().any(|f| f.len == 0) {
            vd.probe("zero_length_file");
        }
        if v.plan.geometry.files.len() > 1 {
            vd.probe("multi_file");
        }
        if !fr.all_ok {
            vd.fail("C03", "C03.file-content", fr.detail, last_seq);
        }
        // nothing unexpected created in the session directory
        let g = &v.plan.geometry;
        let mut expected: Vec<String> = Vec::new();
        for f in &g.files {
            if g.single {
                expected.push(format!("/sim/cwd/{}", g.name));
            } else {
                expected.push(norm(&format!("/sim/cwd/{}/{}", g.name, f.path)));
                if g.files.len() == 1 {
                    expected.push(norm(&format!("/sim/cwd/{}", f.path)));
                }
            }
        }
        for e in &v.out.entries {
            if let Ev::Disk { op: DiskOp::Create, path, ok: true, .. } = &e.ev {
                if !expected.contains(path) {
                    vd.fail("C03", "C03.unexpected-file", format!("extractor created {:?}, which the torrent does not list", path), e.seq);
                }
            }
        }
        vd
    }
}

// ---------------------------------------------------------------------------------------------

pub struct C04;

fn hostile(s: &str) -> bool {
    s.starts_with('/') || s.contains('\\') || s.split('/').any(|c| c == ".." || c == "." || c.is_empty())
}

impl Check for C04 {
    fn id(&self) -> &'static str {
        "C04"
    }
    fn profiles(&self) -> Vec<ProfileSpec> {
        vec![
            ProfileSpec { name: "hostile-names", quick: 30_000, thorough: 2_250_000 },
            ProfileSpec { name: "geometry", quick: 5000, thorough: 125_000 },
        ]
    }
    fn rule(&self) -> &'static str {
        "profile hostile-names: torrent name and file paths drawn from a grammar over {'..', '.', empty, leading '/', normal, nested mixes}, single- and multi-file, downloaded from one honest seeder and extracted by the real extractor onto the simulated disk (the disk is the canary). Non-trivial: the metainfo contains at least one hostile component and extraction ran. Distinct: distinct (name, path list) shapes x interleaving hash."
    }
    fn assumptions(&self) -> Vec<&'static str> {
        vec![
            "lexical path resolution (exact for a tree without symlinks)",
            "quantifier is over strings; simulation contributes the safe disk, not schedule coverage",
        ]
    }
    fn generate(&self, profile: &str, seed: u64) -> Plan {
        gen::generate(profile, seed).expect("profile")
    }
    fn judge(&self, v: &View) -> Verdict {
        let mut vd = Verdict::default();
        let g = &v.plan.geometry;
        let is_hostile = hostile(&g.name) || (!g.single && g.files.iter().any(|f| hostile(&f.path)));
        let shape: Vec<String> = std::iter::once(g.name.clone()).chain(g.files.iter().map(|f| f.path.clone())).collect();
        vd.class = hash_of(&shape);
        let mut extraction = false;
        let cwd = "/sim/cwd";
        let sub = if !g.single && g.files.len() > 1 && !hostile(&g.name) { Some(format!("{}/{}", cwd, g.name)) } else { None };
        for e in &v.out.entries {
            if let Ev::Disk { op, raw, path, ok: true, .. } = &e.ev {
                let creating = matches!(op, DiskOp::Create | DiskOp::Mkdir | DiskOp::Write | DiskOp::Append);
                if !creating {
                    continue;
                }
                if matches!(op, DiskOp::Create) {
                    extraction = true;
                }
                let inside = path == cwd || path.starts_with(&format!("{}/", cwd));
                if !inside {
                    vd.fail("C04", "C04.escape", format!("{:?} of {:?} resolved to {:?}, outside {}", op, raw, path, cwd), e.seq);
                }
                if let (Some(sub), DiskOp::Create) = (&sub, op) {
                    if !path.starts_with(&format!("{}/", sub)) {
                        vd.fail("C04", "C04.escape-subdir", format!("file {:?} created at {:?}, outside the torrent directory {}", raw, path, sub), e.seq);
                    }
                }
            }
        }
        let triggered = extraction_triggered(v);
        vd.nontrivial = is_hostile && (extraction || triggered);
        if is_hostile && triggered && !extraction {
            vd.probe("hostile_torrent_refused");
        }
        if is_hostile && !extraction && !triggered {
            vd.probe("hostile_but_no_extraction");
        }
        vd
    }
}

// ---------------------------------------------------------------------------------------------

pub struct C18;

#[derive(Debug, PartialEq)]
struct Url {
    host: String,
    port: u16,
    path: String,
    pairs: Vec<(String, Option<String>)>,
}

fn parse_url(u: &str) -> Option<Url> {
    // the scheme is case-insensitive (RFC 3986 3.1)
    if u.len() < 7 || !u[..7].eq_ignore_ascii_case("http://") {
        return None;
    }
    let rest = &u[7..];
    let (hostport, pq) = match rest.find(|c| c == '/' || c == '?') {
        Some(i) => (&rest[..i], &rest[i..]),
        None => (rest, ""),
    };
    let (host, port) = match hostport.rfind(':') {
        Some(i) => (hostport[..i].to_string(), hostport[i + 1..].parse().ok()?),
        None => (hostport.to_string(), 80),
    };
    let (path, query) = match pq.find('?') {
        Some(i) => (&pq[..i], Some(&pq[i + 1..])),
        None => (pq, None),
    };
    let path = if path.is_empty() { "/".to_string() } else { path.to_string() };
    let mut pairs = Vec::new();
    if let Some(q) = query {
        for kv in q.split('&') {
            if kv.is_empty() {
                continue;
            }
            match kv.find('=') {
                Some(i) => pairs.push((kv[..i].to_string(), Some(kv[i + 1..].to_string()))),
                None => pairs.push((kv.to_string(), None)),
            }
        }
    }
    Some(Url { host: host.to_ascii_lowercase(), port, path, pairs })
}

/// application/x-www-form-urlencoded decoding as HTTP trackers apply it.
fn form_decode(s: &str) -> Option<Vec<u8>> {
    let b = s.as_bytes();
    let mut out = Vec::new();
    let mut i = 0;
    while i < b.len() {
        match b[i] {
            b'+' => {
                out.push(b' ');
                i += 1;
            }
            b'%' => {
                let h = std::str::from_utf8(b.get(i + 1..i + 3)?).ok()?;
                out.push(u8::from_str_radix(h, 16).ok()?);
                i += 3;
            }
            c => {
                out.push(c);
                i += 1;
            }
        }
    }
    Some(out)
}

impl Check for C18 {
    fn id(&self) -> &'static str {
        "C18"
    }
    fn profiles(&self) -> Vec<ProfileSpec> {
        vec![
            ProfileSpec { name: "announce-url", quick: 20_000, thorough: 1_250_000 },
            ProfileSpec { name: "geometry", quick: 2000, thorough: 50_000 },
            // announces repeated after failures must still carry everything
            ProfileSpec { name: "tracker-faults", quick: 3000, thorough: 100_000 },
        ]
    }
    fn rule(&self) -> &'static str {
        "profile announce-url: announce URLs with/without query (one pair, several pairs, bare '?'), with/without port, several path shapes; random alphanumeric client ids; total lengths 1..40000; info-hash bytes steered by grinding a pad key inside info towards byte value (seed mod 256). Checked at the simulated tracker on the URL the real reqwest RequestBuilder produced. Non-trivial: every announce observed. Distinct: distinct (announce shape, targeted hash byte hit, id) classes x interleaving."
    }
    fn assumptions(&self) -> Vec<&'static str> {
        vec![
            "stub boundary: hyper's serialisation of the URL onto a socket is not executed",
            "tracker-side decoding is application/x-www-form-urlencoded (%XX and '+' as space)",
        ]
    }
    fn generate(&self, profile: &str, seed: u64) -> Plan {
        gen::generate(profile, seed).expect("profile")
    }
    fn judge(&self, v: &View) -> Verdict {
        let mut vd = Verdict::default();
        let g = &v.plan.geometry;
        let want = match parse_url(&g.announce) {
            Some(u) => u,
            None => return vd,
        };
        let ih = v.out.torrent.info_hash;
        let target = (v.plan.seed % 256) as u8;
        vd.class = hash_of(&(g.announce.clone(), ih.contains(&target), target, v.plan.own_id.clone()));
        let mut ver = crate::oracles_wire::Verified::start(v);
        let mut last_snap: Option<world::Snap> = None;
        for e in &v.out.entries {
            ver.on_event(v, &e.ev);
            if let Ev::Snapshot(sn) = &e.ev {
                last_snap = Some(sn.clone());
            }
            if let Ev::Announce { url, .. } = &e.ev {
                vd.nontrivial = true;
                if ih.contains(&target) {
                    vd.probe("targeted_hash_byte_present");
                }
                if !want.pairs.is_empty() {
                    vd.probe("announce_with_existing_query");
                }
                let got = match parse_url(url) {
                    Some(u) => u,
                    None => {
                        vd.fail("C18", "C18.unparsable", format!("request URL {:?}", url), e.seq);
                        continue;
                    }
                };
                if got.host != want.host || got.port != want.port || got.path != want.path {
                    vd.fail(
                        "C18",
                        "C18.host-path",
                        format!("request goes to {}:{}{} instead of {}:{}{} (url {:?})", got.host, got.port, got.path, want.host, want.port, want.path, url),
                        e.seq,
                    );
                }
                for (k, val) in &want.pairs {
                    let present = got.pairs.iter().any(|(k2, v2)| k2 == k && (v2 == val || (val.is_none() && v2.as_deref() == Some(""))));
                    if !present {
                        vd.fail("C18", "C18.query-lost", format!("pre-existing parameter {:?}={:?} missing from {:?}", k, val, url), e.seq);
                    }
                }
                let hashes: Vec<&(String, Option<String>)> = got.pairs.iter().filter(|(k, _)| k == "info_hash").collect();
                if hashes.len() != 1 {
                    vd.fail("C18", "C18.info-hash-param", format!("{} info_hash parameters in {:?}", hashes.len(), url), e.seq);
                } else {
                    let dec = hashes[0].1.as_deref().and_then(form_decode);
                    if dec.as_deref() != Some(&ih[..]) {
                        vd.fail(
                            "C18",
                            "C18.info-hash-value",
                            format!("info_hash decodes to {:?}, expected {} (url {:?})", dec.map(|d| hex_upper(&d)), hex_upper(&ih), url),
                            e.seq,
                        );
                    }
                }
                let get = |k: &str| got.pairs.iter().find(|(k2, _)| k2 == k).and_then(|(_, v)| v.clone());
                if get("peer_id").and_then(|s| form_decode(&s)) != Some(v.plan.own_id.as_bytes().to_vec()) {
                    vd.fail("C18", "C18.peer-id", format!("peer_id {:?} != {:?}", get("peer_id"), v.plan.own_id), e.seq);
                }
                if get("port").as_deref() != Some("6881") {
                    vd.fail("C18", "C18.port", format!("port {:?}", get("port")), e.seq);
                }
                // the total on the first announce; on a re-announce either the total or the bytes
                // really left (both readings of "bytes left" are accepted)
                let stored: u64 = (0..v.out.torrent.pieces()).filter(|i| ver.set.contains(i)).map(|i| v.out.torrent.piece_len(i) as u64).sum();
                // (a piece written a moment ago may not be counted by the manager yet: what its own
                // status vector says is owned is a third acceptable reading)
                let counted: u64 = last_snap
                    .as_ref()
                    .map(|s: &world::Snap| s.status.iter().enumerate().filter(|(_, st)| **st == -1).map(|(i, _)| v.out.torrent.piece_len(i) as u64).sum())
                    .unwrap_or(0);
                let ok_left = [g.total(), g.total() - stored, g.total() - counted.min(g.total())].iter().any(|x| get("left") == Some(x.to_string()));
                if !ok_left {
                    vd.fail("C18", "C18.left", format!("left {:?}, expected {} (total) or {} (remaining)", get("left"), g.total(), g.total() - stored), e.seq);
                }
            }
        }
        vd
    }
}
