//! Scripted peers: a small honest responder plus a timeline of scripted actions, speaking the
//! harness's own wire codec.

use crate::codec::{bitfield_bytes, Item, Msg, StreamDecoder, BLOCK};
use crate::plan::{Accept, Act, BitfieldMode, Hs, PeerPlan, Seg, Step, Unchoke, When};
use crate::torrent::Torrent;
use std::collections::BTreeMap;
use std::sync::{Arc, Mutex};
use std::time::Duration;
use tokio::time::Instant;
use world::rng::Rng64;
use world::{CloseKind, Ev, PeerEnd, ReadOutcome};

pub struct Shared {
    pub torrent: Arc<Torrent>,
    pub seed: u64,
}

enum Action {
    Push(Vec<u8>),
    Process(Vec<u8>),
    Step(usize),
    Answer(u32, u32, u32),
    AutoUnchoke,
    KeepAlive,
    Unstall,
    Heal,
    CloseFin,
}

struct Sess {
    plan: Arc<PeerPlan>,
    sh: Arc<Shared>,
    has: Arc<Mutex<Vec<bool>>>,
    end: PeerEnd,
    outgoing: bool,
    dec: StreamDecoder,
    rng: Rng64,
    heap: BTreeMap<(u64, u64), Action>,
    seq: u64,
    t0: Instant,
    last_push_at: u64,
    last_process_at: u64,
    last_push_key: Option<(u64, u64)>,
    last_answer_at: u64,
    choking: bool,
    sent_hs: bool,
    auto_unchoke_scheduled: bool,
    pending: Vec<(u32, u32, u32)>,
    corrupt: Vec<(u32, u32)>,
    rx_counts: BTreeMap<String, u32>,
    tx_blocks: u32,
    silent: bool,
    stalled: bool,
    done: bool,
    client_has: Vec<bool>,
    client_choking: bool,
    last_served: Option<(u32, u32, u32)>,
    /// messages scripted before our own handshake went out (protocol-conformant peers only)
    held: Vec<Msg>,
    deaf_noted: bool,
    partition_until: u64,
    sent_fnv: u64,
    sent_len: u64,
    pushed_fnv: u64,
    pushed_len: u64,
    /// segments sent towards the client while partitioned, in send order
    part_held: std::collections::VecDeque<Vec<u8>>,
}

fn note(who: &str, what: String) {
    world::log(Ev::Note { who: who.to_string(), what });
}

impl Sess {
    fn now(&self) -> u64 {
        Instant::now().saturating_duration_since(self.t0).as_millis() as u64
    }

    fn schedule(&mut self, at: u64, a: Action) -> (u64, u64) {
        self.seq += 1;
        let k = (at, self.seq);
        self.heap.insert(k, a);
        k
    }

    fn cut(&mut self, bytes: Vec<u8>) -> Vec<Vec<u8>> {
        let n = bytes.len();
        let mut points: Vec<usize> = match self.plan.net.seg {
            Seg::Whole | Seg::Glue => vec![],
            Seg::Cuts(k) => (0..self.rng.range(0, k as u64)).map(|_| self.rng.range(1, n.max(2) as u64 - 1) as usize).collect(),
            Seg::Boundary => vec![1, 3, 4, 5, n.saturating_sub(1)],
            Seg::Bytewise => {
                if n <= 80 {
                    (1..n).collect()
                } else {
                    (0..8).map(|_| self.rng.range(1, n as u64 - 1) as usize).collect()
                }
            }
        };
        points.retain(|p| *p > 0 && *p < n);
        points.sort();
        points.dedup();
        let mut out = Vec::new();
        let mut prev = 0;
        for p in points {
            out.push(bytes[prev..p].to_vec());
            prev = p;
        }
        out.push(bytes[prev..].to_vec());
        out
    }

    fn note_pushed(&mut self, seg: &[u8]) {
        for b in seg {
            self.pushed_fnv = (self.pushed_fnv ^ *b as u64).wrapping_mul(0x0000_0100_0000_01B3);
        }
        self.pushed_len += seg.len() as u64;
        if self.pushed_len == self.sent_len && self.pushed_fnv != self.sent_fnv {
            panic!("harness: simulated network reordered the stream of {}", self.plan.name);
        }
    }

    fn send_raw(&mut self, bytes: Vec<u8>) {
        if self.silent || bytes.is_empty() {
            return;
        }
        // self-check of the simulated network: what reaches the pipe must be this stream, in order
        for b in &bytes {
            self.sent_fnv = (self.sent_fnv ^ *b as u64).wrapping_mul(0x0000_0100_0000_01B3);
        }
        self.sent_len += bytes.len() as u64;
        let now = self.now();
        let lat = self.rng.range(self.plan.net.lat_min, self.plan.net.lat_max);
        let mut at = (now + lat).max(self.last_push_at);
        if self.plan.net.seg == Seg::Glue {
            if let Some(k) = self.last_push_key {
                if k.0 == at {
                    if let Some(Action::Push(prev)) = self.heap.get_mut(&k) {
                        prev.extend_from_slice(&bytes);
                        return;
                    }
                }
            }
        }
        let jitter = self.plan.net.lat_max - self.plan.net.lat_min;
        for seg in self.cut(bytes) {
            let k = self.schedule(at, Action::Push(seg));
            self.last_push_key = Some(k);
            self.last_push_at = at;
            if jitter > 0 && self.rng.chance(1, 2) {
                at += self.rng.range(0, jitter);
            }
        }
    }

    fn send(&mut self, m: &Msg) {
        if !self.sent_hs && self.plan.hs != Hs::Absent && !matches!(m, Msg::Handshake { .. }) {
            self.held.push(m.clone());
            return;
        }
        if !self.silent {
            note(&self.plan.name, format!("tx {}", brief(m)));
        }
        if let Msg::Piece { .. } = m {
            self.tx_blocks += 1;
            let n = self.tx_blocks;
            self.fire_tx_steps(n);
        }
        self.send_raw(m.encode());
    }

    fn fire_tx_steps(&mut self, n: u32) {
        let now = self.now();
        let steps: Vec<(usize, u64)> = self
            .plan
            .script
            .iter()
            .enumerate()
            .filter_map(|(i, s)| match &s.when {
                When::AfterTxBlocks { count, plus } if *count == n => Some((i, *plus)),
                _ => None,
            })
            .collect();
        for (i, plus) in steps {
            self.schedule(now + plus, Action::Step(i));
        }
    }

    fn hs_msg(&self) -> Msg {
        let mut ih = self.sh.torrent.info_hash;
        let mut id = [0u8; 20];
        id.copy_from_slice(&self.plan.id);
        let mut pstr = crate::codec::PSTR.to_vec();
        // how a wrong value deviates from the right one varies: one bit, first/last byte, two
        // unequal bytes transposed, the same bit flipped at two places (differences that cancel
        // under xor or sum), everything
        fn deviate(v: &mut [u8; 20], r: &mut world::rng::Rng64) {
            match r.below(6) {
                0 => v[r.usize_below(20)] ^= 1 << r.below(8),
                1 => v[0] = v[0].wrapping_add(1),
                2 => v[19] ^= 0x01,
                3 => {
                    let i = r.usize_below(20);
                    let j = (0..20).map(|d| (i + 1 + d) % 20).find(|j| v[*j] != v[i]);
                    match j {
                        Some(j) => v.swap(i, j),
                        None => v[i] ^= 0x10,
                    }
                }
                4 => {
                    let (i, b) = (r.usize_below(19), 1u8 << r.below(8));
                    v[i] ^= b;
                    v[i + 1] ^= b;
                }
                _ => {
                    for x in v.iter_mut() {
                        *x = !*x;
                    }
                }
            }
        }
        match self.plan.hs {
            // (a stream of its own: the same deviation on every connection of this peer)
            Hs::WrongHash => deviate(&mut ih, &mut world::rng::Rng64::sub(world::rng::hash_name(&self.plan.name) ^ self.sh.seed, "hs-deviation")),
            Hs::WrongId => deviate(&mut id, &mut world::rng::Rng64::sub(world::rng::hash_name(&self.plan.name) ^ self.sh.seed, "hs-deviation")),
            Hs::WrongPstr => pstr[18] = b'X',
            _ => {}
        }
        Msg::Handshake { pstr, reserved: vec![0; 8], info_hash: ih.to_vec(), peer_id: id.to_vec() }
    }

    fn do_handshake(&mut self) {
        if self.sent_hs {
            return;
        }
        self.sent_hs = true;
        let m = self.hs_msg();
        // a wrong protocol string may also be the right characters under a wrong length byte
        let odd_len = self.plan.hs == Hs::WrongPstr && world::rng::Rng64::sub(world::rng::hash_name(&self.plan.name) ^ self.sh.seed, "hs-pstr-len").chance(1, 2);
        if odd_len {
            let mut raw = Msg::handshake(&self.sh.torrent.info_hash, &{
                let mut id = [0u8; 20];
                id.copy_from_slice(&self.plan.id);
                id
            })
            .encode();
            raw[0] = *world::rng::Rng64::sub(world::rng::hash_name(&self.plan.name) ^ self.sh.seed, "hs-pstr-len-byte").pick(&[20u8, 32, 255, 18]);
            note(&self.plan.name, format!("tx Handshake with length byte {}", raw[0]));
            self.send_raw(raw);
        } else {
            self.send(&m);
        }
        self.advertise();
        for m in std::mem::take(&mut self.held) {
            self.send(&m);
        }
    }

    fn advertise(&mut self) {
        let has = self.has.lock().unwrap().clone();
        match self.plan.bitfield {
            BitfieldMode::Send => self.send(&Msg::Bitfield(bitfield_bytes(&has))),
            BitfieldMode::AsHaves => {
                for (i, h) in has.iter().enumerate() {
                    if *h {
                        self.send(&Msg::Have(i as u32));
                    }
                }
            }
            BitfieldMode::Omit => {}
        }
    }

    fn start(&mut self) {
        let steps: Vec<(usize, u64)> = self
            .plan
            .script
            .iter()
            .enumerate()
            .filter_map(|(i, s)| match s.when {
                When::At(t) => Some((i, t)),
                _ => None,
            })
            .collect();
        for (i, t) in steps {
            self.schedule(t, Action::Step(i));
        }
        if let Some(k) = self.plan.keepalive {
            self.schedule(k, Action::KeepAlive);
        }
        if let Unchoke::At(t) = self.plan.unchoke {
            self.schedule(t, Action::AutoUnchoke);
        }
        let eager = match self.plan.hs {
            Hs::Absent => false,
            Hs::Eager => true,
            _ => !self.outgoing,
        };
        if eager {
            self.do_handshake();
        }
    }

    fn on_frame(&mut self, m: Msg) {
        let kind = m.kind().to_string();
        let c = {
            let e = self.rx_counts.entry(kind.clone()).or_insert(0);
            *e += 1;
            *e
        };
        let now = self.now();
        let steps: Vec<(usize, u64)> = self
            .plan
            .script
            .iter()
            .enumerate()
            .filter_map(|(i, s)| match &s.when {
                When::AfterRx { kind: k, count, plus } if *k == kind && *count == c => Some((i, *plus)),
                _ => None,
            })
            .collect();
        for (i, plus) in steps {
            self.schedule(now + plus, Action::Step(i));
        }
        match m {
            Msg::Handshake { .. } => {
                if self.outgoing && self.plan.hs != Hs::Absent {
                    self.do_handshake();
                }
            }
            Msg::Interested => {
                if let Unchoke::OnInterested(d) = self.plan.unchoke {
                    if self.choking && !self.auto_unchoke_scheduled {
                        self.auto_unchoke_scheduled = true;
                        self.schedule(now + d, Action::AutoUnchoke);
                    }
                }
            }
            Msg::Request { index, begin, len } => {
                if self.choking {
                    return;
                }
                let blk = begin / BLOCK as u32;
                if self.plan.answer.withhold.contains(&(index, blk)) {
                    return;
                }
                let a = &self.plan.answer;
                let mut t = now + self.rng.range(a.delay_min, a.delay_max);
                if a.fifo {
                    t = t.max(self.last_answer_at);
                    self.last_answer_at = t;
                }
                self.pending.push((index, begin, len));
                self.schedule(t, Action::Answer(index, begin, len));
            }
            Msg::Bitfield(b) => {
                self.client_has = crate::codec::bitfield_bits(&b, self.sh.torrent.pieces());
            }
            Msg::Have(i) => {
                let n = self.sh.torrent.pieces();
                if self.client_has.len() < n {
                    self.client_has.resize(n, false);
                }
                if (i as usize) < n {
                    self.client_has[i as usize] = true;
                }
            }
            Msg::Piece { index, begin, block } => self.last_served = Some((index, begin, block.len() as u32)),
            Msg::Choke => self.client_choking = true,
            Msg::Unchoke => self.client_choking = false,
            Msg::Cancel { index, begin, len } => {
                if let Some(p) = self.pending.iter().position(|r| *r == (index, begin, len)) {
                    self.pending.remove(p);
                }
            }
            _ => {}
        }
    }

    fn answer(&mut self, index: u32, begin: u32, len: u32) {
        let p = match self.pending.iter().position(|r| *r == (index, begin, len)) {
            Some(p) => p,
            None => return,
        };
        self.pending.remove(p);
        if self.choking && !self.plan.answer.serve_after_choke {
            return;
        }
        let t = self.sh.torrent.clone();
        let i = index as usize;
        if i >= t.pieces() || !self.has.lock().unwrap()[i] {
            return;
        }
        let pl = t.piece_len(i);
        let (b, l) = (begin as usize, len as usize);
        if l == 0 || l > BLOCK || b.checked_add(l).map(|e| e > pl).unwrap_or(true) {
            return;
        }
        let mut data = t.piece_data(i)[b..b + l].to_vec();
        let blk = begin / BLOCK as u32;
        if let Some(ci) = self.corrupt.iter().position(|c| *c == (index, blk)) {
            data[0] ^= 0xA5;
            world::bump("corrupt_block_sent");
            if self.plan.answer.corrupt_once {
                self.corrupt.remove(ci);
            }
        }
        let m = Msg::Piece { index, begin, block: data };
        self.send(&m);
        if self.plan.answer.dup_pm > 0 && self.rng.below(1000) < self.plan.answer.dup_pm as u64 {
            world::bump("dup_block_sent");
            self.send(&m);
        }
    }

    fn step(&mut self, i: usize) {
        let Step { act, .. } = self.plan.script[i].clone();
        match act {
            Act::Send(Msg::Handshake { pstr, reserved, info_hash, peer_id }) => {
                // placeholders: empty = this torrent's hash, [1] = another torrent's hash
                let mut ih = self.sh.torrent.info_hash.to_vec();
                if info_hash.len() == 20 {
                    ih = info_hash;
                } else if info_hash == vec![1] {
                    ih[3] ^= 0x10;
                }
                self.send(&Msg::Handshake { pstr, reserved, info_hash: ih, peer_id });
                if !self.sent_hs {
                    self.sent_hs = true;
                }
            }
            Act::Send(m) => self.send(&m),
            Act::Raw(b) => {
                note(&self.plan.name, format!("tx raw {} bytes", b.len()));
                self.send_raw(b)
            }
            Act::Choke => {
                if self.plan.strict_choke && self.choking {
                    return;
                }
                self.choking = true;
                if !self.plan.answer.serve_after_choke {
                    self.pending.clear();
                }
                self.send(&Msg::Choke);
            }
            Act::Unchoke => {
                if self.plan.strict_choke && !self.choking {
                    return;
                }
                self.choking = false;
                self.send(&Msg::Unchoke);
            }
            Act::RepeatChokeState => {
                world::bump("redundant_choke_state");
                let m = if self.choking { Msg::Choke } else { Msg::Unchoke };
                self.send(&m);
            }
            Act::Gain(p) => {
                let newly = {
                    let mut h = self.has.lock().unwrap();
                    let was = h[p as usize];
                    h[p as usize] = true;
                    !was
                };
                if newly || true {
                    self.send(&Msg::Have(p));
                }
            }
            Act::CloseFin => {
                let at = self.last_push_at.max(self.now());
                self.schedule(at, Action::CloseFin);
            }
            Act::CloseRst => {
                note(&self.plan.name, "rst".into());
                world::bump("peer_rst");
                self.end.close(CloseKind::Rst);
                self.done = true;
            }
            Act::Stall(ms) => {
                world::bump("peer_stall");
                self.stalled = true;
                self.end.set_capacity(0);
                world::log(Ev::Fault { kind: "stall-begin".into(), detail: self.end.conn.to_string() });
                let now = self.now();
                self.schedule(now + ms, Action::Unstall);
            }
            Act::Partition(ms) => {
                world::bump("partition");
                let now = self.now();
                self.partition_until = self.partition_until.max(now + ms);
                self.stalled = true;
                world::log(Ev::Fault { kind: "partition-begin".into(), detail: self.end.conn.to_string() });
                let at = self.partition_until;
                self.schedule(at, Action::Heal);
            }
            Act::Silence => self.silent = true,
            Act::Resume => self.silent = false,
            Act::Request(i, b, l) => self.send(&Msg::Request { index: i, begin: b, len: l }),
            Act::RepeatLast => {
                if let Some((i, b, l)) = self.last_served {
                    self.send(&Msg::Request { index: i, begin: b, len: l });
                }
            }
            Act::RequestOwned(k) => {
                if self.client_choking {
                    return;
                }
                let owned: Vec<usize> = self.client_has.iter().enumerate().filter(|(_, h)| **h).map(|(i, _)| i).collect();
                if owned.is_empty() {
                    return;
                }
                for _ in 0..k {
                    let i = *self.rng.pick(&owned);
                    let pl = self.sh.torrent.piece_len(i);
                    let nblocks = (pl + BLOCK - 1) / BLOCK;
                    let b = self.rng.usize_below(nblocks);
                    let begin = b * BLOCK;
                    let len = (pl - begin).min(BLOCK);
                    self.send(&Msg::Request { index: i as u32, begin: begin as u32, len: len as u32 });
                }
            }
        }
    }

    fn exec(&mut self, a: Action) {
        match a {
            Action::Push(seg) => {
                // partitioned: the segment is still in flight, it arrives when the partition heals
                // (held in send order: re-scheduling them one by one would let a later segment
                // overtake an earlier one when a second partition starts before the first heals)
                let now = self.now();
                if now < self.partition_until || !self.part_held.is_empty() {
                    self.part_held.push_back(seg);
                    return;
                }
                self.note_pushed(&seg);
                if !self.end.push(seg) {
                    // client side is gone
                    self.done = true;
                }
            }
            Action::Process(bytes) => {
                self.dec.push(&bytes);
                if self.dec.fatal.is_some() && !self.deaf_noted {
                    self.deaf_noted = true;
                    world::bump("peer_cannot_decode_client_stream");
                    note(&self.plan.name, format!("cannot decode the client's stream: {:?}", self.dec.fatal));
                }
                while let Some(item) = self.dec.next() {
                    if let Item::Msg(m) = item {
                        self.on_frame(m);
                    }
                    if self.done {
                        break;
                    }
                }
            }
            Action::Step(i) => self.step(i),
            Action::Answer(i, b, l) => self.answer(i, b, l),
            Action::AutoUnchoke => {
                if self.choking {
                    self.choking = false;
                    self.send(&Msg::Unchoke);
                }
            }
            Action::KeepAlive => {
                self.send(&Msg::KeepAlive);
                if let Some(k) = self.plan.keepalive {
                    let now = self.now();
                    self.schedule(now + k, Action::KeepAlive);
                }
            }
            Action::Heal => {
                if self.now() >= self.partition_until {
                    self.stalled = false;
                    world::log(Ev::Fault { kind: "partition-heal".into(), detail: self.end.conn.to_string() });
                    while let Some(seg) = self.part_held.pop_front() {
                        self.note_pushed(&seg);
                        if !self.end.push(seg) {
                            self.done = true;
                            break;
                        }
                    }
                }
            }
            Action::Unstall => {
                self.stalled = false;
                self.end.set_capacity(1 << 20);
                world::log(Ev::Fault { kind: "stall-end".into(), detail: self.end.conn.to_string() });
            }
            Action::CloseFin => {
                note(&self.plan.name, "fin".into());
                world::bump("peer_fin");
                self.end.close(CloseKind::Fin);
                self.done = true;
            }
        }
    }

    async fn run(mut self) {
        self.start();
        loop {
            // run everything that is due
            loop {
                let now = self.now();
                let k = match self.heap.first_key_value() {
                    Some((k, _)) if k.0 <= now => *k,
                    _ => break,
                };
                let a = self.heap.remove(&k).unwrap();
                self.exec(a);
                if self.done {
                    return;
                }
            }
            let next = self.heap.first_key_value().map(|(k, _)| k.0);
            let wake = match next {
                Some(t) => self.t0 + Duration::from_millis(t),
                None => self.t0 + Duration::from_secs(1_000_000),
            };
            let stalled = self.stalled;
            tokio::select! {
                biased;
                _ = tokio::time::sleep_until(wake) => {}
                r = self.end.read(), if !stalled => match r {
                    ReadOutcome::Data(bytes) => {
                        // one-way latency; never reorders the byte stream (TCP)
                        let now = self.now();
                        let lat = self.rng.range(self.plan.net.lat_min, self.plan.net.lat_max);
                        let at = (now + lat).max(self.last_process_at);
                        self.last_process_at = at;
                        self.schedule(at, Action::Process(bytes));
                    }
                    ReadOutcome::Eof | ReadOutcome::Reset => {
                        note(&self.plan.name, "client closed".into());
                        return;
                    }
                },
            }
        }
    }
}

pub fn brief(m: &Msg) -> String {
    match m {
        Msg::Piece { index, begin, block } => format!("Piece({},{},{})", index, begin, block.len()),
        Msg::Bitfield(b) => format!("Bitfield({:?})", b),
        Msg::Handshake { info_hash, peer_id, pstr, .. } => format!(
            "Handshake(pstr_ok={}, ih={}, id={})",
            pstr.as_slice() == crate::codec::PSTR,
            crate::codec::hex_upper(&info_hash[..info_hash.len().min(4)]),
            String::from_utf8_lossy(peer_id)
        ),
        Msg::Unknown { id, payload } => format!("Unknown(id={}, len={})", id, payload.len()),
        other => format!("{:?}", other),
    }
}

fn new_session(plan: Arc<PeerPlan>, sh: Arc<Shared>, has: Arc<Mutex<Vec<bool>>>, end: PeerEnd, outgoing: bool, n: u32) -> Sess {
    let rng = Rng64::sub(sh.seed, &format!("peer-{}-sess-{}", plan.name, n));
    let corrupt = plan.answer.corrupt.clone();
    Sess {
        plan,
        sh,
        has,
        end,
        outgoing,
        dec: StreamDecoder::default(),
        rng,
        heap: BTreeMap::new(),
        seq: 0,
        t0: Instant::now(),
        last_push_at: 0,
        last_process_at: 0,
        last_push_key: None,
        last_answer_at: 0,
        choking: true,
        sent_hs: false,
        auto_unchoke_scheduled: false,
        pending: Vec::new(),
        corrupt,
        rx_counts: BTreeMap::new(),
        tx_blocks: 0,
        silent: false,
        stalled: false,
        done: false,
        client_has: Vec::new(),
        client_choking: true,
        last_served: None,
        held: Vec::new(),
        deaf_noted: false,
        partition_until: 0,
        sent_fnv: 0xcbf29ce484222325,
        sent_len: 0,
        pushed_fnv: 0xcbf29ce484222325,
        pushed_len: 0,
        part_held: std::collections::VecDeque::new(),
    }
}

/// Source address used by the k-th dial-in of a peer.
pub fn dial_in_addr(plan: &PeerPlan, k: usize) -> String {
    if plan.dial_in_same_addr {
        return plan.addr.clone();
    }
    let ip = plan.addr.split(':').next().unwrap_or("10.9.9.9");
    format!("{}:{}", ip, 50000 + k)
}

/// Register the peer in the world and spawn its tasks on the current runtime.
pub fn spawn_peer(plan: PeerPlan, sh: Arc<Shared>) {
    let plan = Arc::new(plan);
    let has = Arc::new(Mutex::new(plan.has.clone()));
    let knobs = world::NetKnobs {
        short_read_pm: plan.net.short_read_pm,
        short_write_pm: plan.net.short_write_pm,
        yield_pm: plan.net.yield_pm,
        seed: sh.seed ^ world::rng::hash_name(&plan.name),
    };
    // server side
    let (tx, mut rx) = tokio::sync::mpsc::unbounded_channel::<PeerEnd>();
    let mode = match plan.accept {
        Accept::Accept => world::AcceptMode::Accept { delay_ms: plan.accept_delay },
        Accept::Refuse => world::AcceptMode::Refuse,
        Accept::Timeout(ms) => world::AcceptMode::Timeout { after_ms: ms },
    };
    world::with(|w| {
        w.net.servers.insert(
            plan.addr.clone(),
            world::Server { mode, inbox: tx, knobs: knobs.clone(), accepts_left: Some(plan.max_accepts) },
        );
        for k in 0..plan.dial_in.len() {
            w.net.incoming_knobs.insert(dial_in_addr(&plan, k), knobs.clone());
        }
    });
    {
        let (plan, sh, has) = (plan.clone(), sh.clone(), has.clone());
        tokio::spawn(async move {
            let mut n = 0u32;
            while let Some(end) = rx.recv().await {
                let s = new_session(plan.clone(), sh.clone(), has.clone(), end, true, n);
                n += 1;
                tokio::spawn(s.run());
            }
        });
    }
    for (k, at) in plan.dial_in.iter().enumerate() {
        let (plan, sh, has) = (plan.clone(), sh.clone(), has.clone());
        let at = *at;
        tokio::spawn(async move {
            tokio::time::sleep(Duration::from_millis(at)).await;
            let from = dial_in_addr(&plan, k);
            if let Some(end) = world::dial_in(&from) {
                let s = new_session(plan.clone(), sh.clone(), has.clone(), end, false, 1000 + k as u32);
                s.run().await;
            }
        });
    }
}
