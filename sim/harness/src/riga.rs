//! Rig A: one real `Connection` reading from a scripted byte source, polled by hand (no
//! runtime, no timers): after each delivered chunk `recv_frame` is polled until it is pending,
//! which is an exact quiescent point.

use crate::plan::{Act, Plan};
use crate::run::{install_hooks, End, RunOut, PANICS};
use crate::torrent::build;
use std::future::Future;
use std::panic::AssertUnwindSafe;
use std::sync::atomic::{AtomicBool, Ordering};
use std::sync::Arc;
use std::task::{Context, Poll, Wake, Waker};
use world::{CloseKind, Ev};

struct Flag(AtomicBool);

impl Wake for Flag {
    fn wake(self: Arc<Self>) {
        self.0.store(true, Ordering::SeqCst);
    }
}

fn note(what: String) {
    world::log(Ev::Note { who: "driver".into(), what });
}

pub fn run_stream(plan: &Plan) -> RunOut {
    let torrent = Arc::new(build(&plan.geometry, plan.content_seed));
    PANICS.with(|p| p.borrow_mut().clear());
    world::install(world::World::new(plan.seed));
    install_hooks((1, 2));
    let peer = &plan.peers[0];
    let knobs = world::NetKnobs {
        short_read_pm: peer.net.short_read_pm,
        short_write_pm: 0,
        yield_pm: peer.net.yield_pm,
        seed: plan.seed,
    };
    let addr = "10.0.0.1:7000";
    let (stream, mut end) = world::pair(addr, knobs);
    let flag = Arc::new(Flag(AtomicBool::new(false)));
    let waker = Waker::from(flag.clone());
    let res = std::panic::catch_unwind(AssertUnwindSafe(|| {
        let mut conn = rdest::verif_api::Connection::new(addr.to_string());
        conn.with_socket(tokio_shim::net::wrap(stream));
        let mut finished = false;
        // poll until pending; returns false once recv_frame reported an error / end of stream
        let mut drain = |conn: &mut rdest::verif_api::Connection, finished: &mut bool| {
            if *finished {
                return;
            }
            let mut guard = 0;
            loop {
                guard += 1;
                if guard > 100_000 {
                    note("driver guard tripped".into());
                    break;
                }
                flag.0.store(false, Ordering::SeqCst);
                let mut cx = Context::from_waker(&waker);
                let mut fut = Box::pin(conn.recv_frame());
                match fut.as_mut().poll(&mut cx) {
                    Poll::Ready(Ok(Some(_))) => continue,
                    Poll::Ready(Ok(None)) => {
                        note("ret none".into());
                        *finished = true;
                        break;
                    }
                    Poll::Ready(Err(e)) => {
                        note(format!("ret err {}", e));
                        *finished = true;
                        break;
                    }
                    Poll::Pending => {
                        if flag.0.load(Ordering::SeqCst) {
                            continue;
                        }
                        break;
                    }
                }
            }
        };
        let mut k = 0;
        let mut closed = false;
        for s in &peer.script {
            match &s.act {
                Act::Raw(b) => {
                    end.push(b.clone());
                    drain(&mut conn, &mut finished);
                    k += 1;
                    note(format!("quiescent {}", k));
                }
                Act::CloseFin | Act::CloseRst => {
                    note("end-of-stream".into());
                    closed = true;
                    end.close(if s.act == Act::CloseFin { CloseKind::Fin } else { CloseKind::Rst });
                    drain(&mut conn, &mut finished);
                    note("after-close".into());
                }
                _ => {}
            }
        }
        if !closed {
            note("end-of-stream".into());
        }
    }));
    let log = world::take_log();
    let stats = world::take_stats();
    let w = world::take().expect("world");
    let panics = PANICS.with(|p| p.borrow().clone());
    RunOut {
        entries: log.entries,
        digest: log.digest,
        stats,
        files: w.disk.files,
        dirs: vec![],
        panics,
        end: if res.is_ok() { End::Goal } else { End::SessionPanicked },
        end_ms: 0,
        goal_ms: None,
        conn_addr: w.net.conn_addr,
        torrent,
        harness_error: None,
    }
}
