//! Execute one Plan: real rdest `Session` + scripted world on a paused, seeded, single-threaded
//! tokio runtime.

use crate::actors::{spawn_peer, Shared};
use crate::codec::B;
use crate::plan::{Plan, TrackerStep};
use crate::torrent::{build, Torrent};
use std::cell::RefCell;
use std::collections::BTreeMap;
use std::panic::AssertUnwindSafe;
use std::sync::Arc;
use std::time::Duration;
use world::rng::Rng64;
use world::{Entry, Ev, TrackerOutcome};

thread_local! {
    pub static PANICS: RefCell<Vec<(String, String)>> = const { RefCell::new(Vec::new()) };
}

/// Process-wide panic hook: record message and location per thread, print nothing.
pub fn install_panic_hook() {
    std::panic::set_hook(Box::new(|info| {
        let msg = if let Some(s) = info.payload().downcast_ref::<&str>() {
            s.to_string()
        } else if let Some(s) = info.payload().downcast_ref::<String>() {
            s.clone()
        } else {
            "<non-string panic>".to_string()
        };
        let loc = info.location().map(|l| format!("{}:{}", l.file(), l.line())).unwrap_or_default();
        let _ = PANICS.try_with(|p| {
            if let Ok(mut p) = p.try_borrow_mut() {
                p.push((msg.clone(), loc.clone()))
            }
        });
        if std::env::var_os("RDSIM_SHOW_PANICS").is_some() {
            eprintln!("[panic] {} at {}", msg, loc);
        }
    }));
}

#[derive(Clone, Debug, PartialEq)]
pub enum End {
    Deadline,
    Goal,
    SessionReturned,
    SessionPanicked,
    EventLimit,
}

pub struct RunOut {
    pub entries: Vec<Entry>,
    pub digest: u64,
    pub stats: BTreeMap<&'static str, u64>,
    pub files: BTreeMap<String, Vec<u8>>,
    pub dirs: Vec<String>,
    pub panics: Vec<(String, String)>,
    pub end: End,
    pub end_ms: u64,
    pub goal_ms: Option<u64>,
    pub conn_addr: BTreeMap<u32, String>,
    pub torrent: Arc<Torrent>,
    pub harness_error: Option<String>,
}

struct FsBackend;

impl rdest::verif::fs::Backend for FsBackend {
    fn create_dir_all(&mut self, path: &str) -> std::io::Result<()> {
        world::with(|w| w.disk.mkdir_all(path))
    }
    fn create(&mut self, path: &str) -> std::io::Result<String> {
        world::with(|w| w.disk.create(path))
    }
    fn open(&mut self, path: &str) -> std::io::Result<String> {
        world::with(|w| w.disk.open(path))
    }
    fn read_at(&mut self, handle: &str, pos: u64, buf: &mut [u8]) -> std::io::Result<usize> {
        world::with(|w| w.disk.read_at(handle, pos, buf))
    }
    fn write_at(&mut self, handle: &str, pos: u64, buf: &[u8]) -> std::io::Result<usize> {
        world::with(|w| w.disk.write_at(handle, pos, buf))
    }
    fn len(&mut self, handle: &str) -> std::io::Result<u64> {
        world::with(|w| w.disk.len_of(handle).ok_or_else(|| std::io::Error::new(std::io::ErrorKind::NotFound, "gone")))
    }
}

fn conv_snap(s: rdest::verif::Snap) -> world::Snap {
    world::Snap {
        status: s.status,
        candidates: s.candidates,
        peers: s
            .peers
            .into_iter()
            .map(|p| world::PeerSnap {
                addr: p.addr,
                id: p.id,
                pieces: p.pieces,
                piece_index: p.piece_index,
                am_interested: p.am_interested,
                am_choked: p.am_choked,
                interested: p.interested,
                choked: p.choked,
                optimistic: p.optimistic_unchoke,
                download_rate: p.download_rate,
                uploaded_rate: p.uploaded_rate,
            })
            .collect(),
    }
}

pub fn install_hooks(hash_keys: (u64, u64)) {
    rdest::verif::set_hash_keys(hash_keys.0, hash_keys.1);
    rdest::verif::install_fs(Box::new(FsBackend));
    rdest::verif::install_sink(Box::new(|ev| {
        use rdest::verif::Ev as R;
        let e = match ev {
            R::Snapshot(s) => Ev::Snapshot(conv_snap(s)),
            R::Pick { addr, chosen, snap } => Ev::Pick { addr, chosen, snap: conv_snap(snap) },
            R::PieceDone { addr, index } => Ev::PieceDone { addr, index },
            R::Rotation { rates, new_optimistic, map, snap } => Ev::Rotation { rates, new_optimistic, map, snap: conv_snap(snap) },
            R::KillReq { addr, reason } => Ev::KillReq { addr, reason },
            R::Decoded { addr, frame, consumed } => Ev::Decoded { addr, frame, consumed },
            R::RecvErr { addr, err } => Ev::RecvErr { addr, err },
            R::Buffered { addr, len } => Ev::Buffered { addr, len },
            R::Assigned { addr, index, len } => Ev::Assigned { addr, index, len },
        };
        world::log(e);
    }));
}

/// Body of a tracker reply for one scripted step (harness's own bencode encoder).
pub fn tracker_body(step: &TrackerStep, plan: &Plan) -> (TrackerOutcome, String) {
    match step {
        TrackerStep::Refused => (TrackerOutcome::Refused, "Refused".into()),
        TrackerStep::Http(code) => (TrackerOutcome::Http(*code, b"error".to_vec()), format!("Http({})", code)),
        TrackerStep::Garbage(b) => (TrackerOutcome::Http(200, b.clone()), format!("Garbage({} bytes)", b.len())),
        TrackerStep::Failure(r) => {
            let body = B::Dict(vec![(b"failure reason".to_vec(), B::s(r))]).encode();
            (TrackerOutcome::Http(200, body), "Failure".into())
        }
        TrackerStep::FailureWithPeers(r) => {
            let decoys: Vec<B> = (0..3)
                .map(|k| {
                    B::Dict(vec![
                        (b"ip".to_vec(), B::s(&format!("10.77.0.{}", k + 1))),
                        (b"peer id".to_vec(), B::s("-DECOY0-000000000000")),
                        (b"port".to_vec(), B::Int(7700 + k)),
                    ])
                })
                .collect();
            let body = B::Dict(vec![
                (b"failure reason".to_vec(), B::s(r)),
                (b"interval".to_vec(), B::Int(1800)),
                (b"peers".to_vec(), B::List(decoys)),
            ])
            .encode();
            (TrackerOutcome::Http(200, body), "FailureWithPeers".into())
        }
        TrackerStep::NoPeers => {
            let body = B::Dict(vec![(b"interval".to_vec(), B::Int(1800))]).encode();
            (TrackerOutcome::Http(200, body), "NoPeers".into())
        }
        TrackerStep::Good { peers, malformed, wrong_id_for } => {
            let mut list = Vec::new();
            let mut k = 0u32;
            for name in peers {
                // interleave malformed entries deterministically
                if k < *malformed {
                    list.push(malformed_entry(k));
                    k += 1;
                }
                if let Some(p) = plan.peers.iter().find(|p| &p.name == name) {
                    let (ip, port) = split_addr(&p.addr);
                    let mut id = p.id.clone();
                    if wrong_id_for.contains(name) {
                        id[0] ^= 0x20;
                    }
                    list.push(B::Dict(vec![
                        (b"ip".to_vec(), B::s(&ip)),
                        (b"peer id".to_vec(), B::Str(id)),
                        (b"port".to_vec(), B::Int(port as i64)),
                    ]));
                }
            }
            while k < *malformed {
                list.push(malformed_entry(k));
                k += 1;
            }
            // a marker among the names asks for the optional BEP3 key "warning message" (the reply
            // is processed normally all the same)
            let mut d = vec![(b"interval".to_vec(), B::Int(1800)), (b"peers".to_vec(), B::List(list))];
            if wrong_id_for.iter().any(|n| n == "#warning") {
                d.push((b"warning message".to_vec(), B::s("tracker is moving, update your announce URL")));
            }
            let body = B::Dict(d).encode();
            (TrackerOutcome::Http(200, body), format!("Good({} peers, {} malformed)", peers.len(), malformed))
        }
    }
}

/// Address of the well-formed entry with an out-of-range port (entry kind 5): whatever the client
/// makes of it, it must not turn into another address.
pub const BIG_PORT_ADDR: &str = "10.66.0.9:72417";

fn malformed_entry(k: u32) -> B {
    match k % 6 {
        5 => B::Dict(vec![
            (b"ip".to_vec(), B::s("10.66.0.9")),
            (b"peer id".to_vec(), B::s("AAAAABBBBBCCCCCDDDDD")),
            (b"port".to_vec(), B::Int(72417)),
        ]),
        0 => B::Int(7),
        1 => B::Dict(vec![(b"ip".to_vec(), B::s("10.66.0.1")), (b"port".to_vec(), B::Int(7000))]),
        2 => B::Dict(vec![
            (b"ip".to_vec(), B::s("10.66.0.2")),
            (b"peer id".to_vec(), B::s("short")),
            (b"port".to_vec(), B::Int(7000)),
        ]),
        3 => B::Dict(vec![
            (b"ip".to_vec(), B::s("10.66.0.3")),
            (b"peer id".to_vec(), B::s("AAAAABBBBBCCCCCDDDDD")),
            (b"port".to_vec(), B::Int(-5)),
        ]),
        _ => B::Dict(vec![
            (b"ip".to_vec(), B::Int(3)),
            (b"peer id".to_vec(), B::s("AAAAABBBBBCCCCCDDDDD")),
            (b"port".to_vec(), B::s("7000")),
        ]),
    }
}

pub fn split_addr(a: &str) -> (String, u16) {
    let mut it = a.rsplitn(2, ':');
    let port = it.next().and_then(|p| p.parse().ok()).unwrap_or(0);
    let ip = it.next().unwrap_or("").to_string();
    (ip, port)
}

fn expected_present(t: &Torrent) -> bool {
    let g = &t.geometry;
    world::with(|w| {
        let mut pos = 0usize;
        for f in &g.files {
            let rel = if g.single { g.name.clone() } else { format!("{}/{}", g.name, f.path) };
            let abs = w.disk.resolve(&rel);
            let want = &t.content[pos..pos + f.len as usize];
            pos += f.len as usize;
            match w.disk.files.get(&abs) {
                Some(d) if d.as_slice() == want => {}
                _ => {
                    // single-entry multi-file torrents may be placed at `path` or `name/path`
                    if !g.single && g.files.len() == 1 {
                        let abs2 = w.disk.resolve(&f.path);
                        if w.disk.files.get(&abs2).map(|d| d.as_slice() == want).unwrap_or(false) {
                            continue;
                        }
                    }
                    return false;
                }
            }
        }
        true
    })
}

pub fn run_plan(plan: &Plan) -> RunOut {
    if plan.profile.starts_with("riga-") {
        return crate::riga::run_stream(plan);
    }
    let torrent = Arc::new(build(&plan.geometry, plan.content_seed));
    PANICS.with(|p| p.borrow_mut().clear());

    let mut w = world::World::new(plan.seed);
    w.fs_yield_pm = plan.fs_yield_pm;
    w.sched_yield_pm = plan.sched_yield_pm;
    w.chan_cap = plan.chan_cap;
    w.disk.fail_writes = plan.disk_fail_writes.iter().cloned().collect();
    w.disk.fail_reads = plan.disk_fail_reads.iter().cloned().collect();
    w.disk.full_from = plan.disk_full_from;
    for (lat, step) in &plan.tracker.steps {
        let (out, label) = tracker_body(step, plan);
        w.tracker.script.push((*lat, out, label));
    }
    w.tracker.repeat_latency = 250;
    for (i, kind) in &plan.preexisting {
        let i = *i as usize;
        if i < torrent.pieces() {
            let good = torrent.piece_data(i).to_vec();
            let data = match kind {
                0 => good,
                1 => good[..good.len() / 2].to_vec(),
                _ => good.iter().map(|b| b ^ 0x5A).collect(),
            };
            w.disk.files.insert(format!("/sim/cwd/{}.piece", crate::codec::hex_upper(&torrent.piece_hashes[i])), data);
        }
    }
    world::install(w);
    let mut hk = Rng64::sub(plan.seed, "hasher-keys");
    install_hooks((hk.next_u64(), hk.next_u64()));

    let mut seed_bytes = [0u8; 32];
    Rng64::sub(plan.tokio_seed, "tokio").fill(&mut seed_bytes);
    let rt = tokio::runtime::Builder::new_current_thread()
        .enable_time()
        .start_paused(true)
        .rng_seed(tokio::runtime::RngSeed::from_bytes(&seed_bytes))
        .build()
        .expect("runtime");

    let metainfo = rdest::Metainfo::from_bencode(&torrent.bytes);
    let mut harness_error = None;
    let mut end = End::Deadline;
    let mut goal_ms = None;
    let mut director_end = 0u64;

    match metainfo {
        Err(e) => harness_error = Some(format!("metainfo rejected by rdest: {}", e)),
        Ok(metainfo) => {
            let mut own_id = [0u8; 20];
            let idb = plan.own_id.as_bytes();
            if idb.len() == 20 {
                own_id.copy_from_slice(idb);
            }
            let sh = Arc::new(Shared { torrent: torrent.clone(), seed: plan.seed });
            let plan2 = plan.clone();
            let t2 = torrent.clone();
            let res = std::panic::catch_unwind(AssertUnwindSafe(|| {
                rt.block_on(async move {
                    world::start_clock();
                    for p in &plan2.peers {
                        spawn_peer(p.clone(), sh.clone());
                    }
                    let mut session = rdest::Session::new(metainfo, own_id);
                    let director = async {
                        let mut goal_at: Option<u64> = None;
                        loop {
                            tokio::time::sleep(Duration::from_millis(100)).await;
                            let now = world::now_ms();
                            if world::log_len() >= 1_500_000 {
                                return (End::EventLimit, goal_at, now);
                            }
                            if plan2.stop_on_done {
                                if goal_at.is_none() && expected_present(&t2) {
                                    goal_at = Some(now);
                                }
                                if let Some(g) = goal_at {
                                    if now >= g + plan2.linger_ms {
                                        return (End::Goal, goal_at, now);
                                    }
                                }
                            }
                            if now >= plan2.deadline_ms {
                                return (End::Deadline, goal_at, now);
                            }
                        }
                    };
                    tokio::select! {
                        biased;
                        r = director => r,
                        _ = session.run() => (End::SessionReturned, None, world::now_ms()),
                    }
                })
            }));
            match res {
                Ok((e, g, t)) => {
                    end = e;
                    goal_ms = g;
                    director_end = t;
                }
                Err(_) => end = End::SessionPanicked,
            }
        }
    }

    let log = world::take_log();
    let end_ms = log.entries.last().map(|e| e.t_ms).unwrap_or(0).max(director_end);
    let stats = world::take_stats();
    drop(rt);
    let w = world::take().expect("world");
    let panics = PANICS.with(|p| p.borrow().clone());
    RunOut {
        entries: log.entries,
        digest: log.digest,
        stats,
        files: w.disk.files,
        dirs: w.disk.dirs.into_iter().collect(),
        panics,
        end,
        end_ms,
        goal_ms,
        conn_addr: w.net.conn_addr,
        torrent,
        harness_error,
    }
}
