//! seed -> Plan, one pure function per profile.

use crate::plan::*;
use world::rng::Rng64;

pub fn peer_id(k: usize) -> Vec<u8> {
    format!("-SIM0001-{:011}", k).into_bytes()
}

pub fn base_peer(k: usize, pieces: usize) -> PeerPlan {
    PeerPlan {
        name: format!("p{}", k),
        addr: format!("10.0.{}.{}:{}", k / 200, 1 + k % 200, 7000 + k),
        id: peer_id(k),
        listed: true,
        accept: Accept::Accept,
        accept_delay: 1,
        max_accepts: 1,
        dial_in: vec![],
        has: vec![true; pieces],
        bitfield: BitfieldMode::Send,
        hs: Hs::Ok,
        net: NetPlan::default(),
        unchoke: Unchoke::OnInterested(1),
        answer: Answer::default(),
        keepalive: Some(60_000),
        script: vec![],
        essential: true,
    }
}

pub fn simple_geometry(piece_len: u64, total: u64) -> Geometry {
    Geometry {
        piece_len,
        name: "data.bin".into(),
        single: true,
        files: vec![FileSpec { path: "data.bin".into(), len: total }],
        announce: "http://tracker.sim:6969/announce".into(),
        pad: String::new(),
    }
}

pub fn base_plan(profile: &str, seed: u64, g: Geometry) -> Plan {
    let mut r = Rng64::sub(seed, "plan-base");
    Plan {
        profile: profile.into(),
        seed,
        geometry: g,
        content_seed: r.next_u64(),
        own_id: "-RD0001-verifsim0001".into(),
        tokio_seed: r.next_u64(),
        fs_yield_pm: 0,
        disk_fail_writes: vec![],
        disk_fail_reads: vec![],
        tracker: TrackerPlan { steps: vec![] },
        peers: vec![],
        deadline_ms: 60_000,
        linger_ms: 2_000,
        stop_on_done: true,
    }
}

pub fn smoke(seed: u64) -> Plan {
    let g = simple_geometry(32768, 100_000);
    let n = g.pieces();
    let mut p = base_plan("smoke", seed, g);
    let mut a = base_peer(0, n);
    // the client extracts only when some connection ends: let the seeder leave late
    a.script.push(Step { when: When::At(20_000), act: Act::CloseFin });
    p.peers.push(a);
    p.tracker.steps.push((5, TrackerStep::Good { peers: vec!["p0".into()], malformed: 0, wrong_id_for: vec![] }));
    p
}

pub fn generate(profile: &str, seed: u64) -> Option<Plan> {
    match profile {
        "smoke" => Some(smoke(seed)),
        _ => None,
    }
}
