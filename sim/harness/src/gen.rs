//! seed -> Plan, one pure function per profile.

use crate::codec::{Msg, BLOCK};
use crate::plan::*;
use world::rng::Rng64;

pub fn peer_id(k: usize) -> Vec<u8> {
    format!("-SIM0001-{:011}", k).into_bytes()
}

pub fn base_peer(k: usize, pieces: usize) -> PeerPlan {
    PeerPlan {
        name: format!("p{}", k),
        addr: format!("10.0.{}.{}:{}", k / 200, 1 + k % 200, 7000 + k),
        id: peer_id(k),
        listed: true,
        accept: Accept::Accept,
        accept_delay: 1,
        max_accepts: 1,
        dial_in: vec![],
        dial_in_same_addr: false,
        has: vec![true; pieces],
        bitfield: BitfieldMode::Send,
        hs: Hs::Ok,
        net: NetPlan::default(),
        unchoke: Unchoke::OnInterested(1),
        answer: Answer::default(),
        keepalive: Some(60_000),
        script: vec![],
        essential: true,
        strict_choke: false,
    }
}

pub fn simple_geometry(piece_len: u64, total: u64) -> Geometry {
    Geometry {
        piece_len,
        name: "data.bin".into(),
        single: true,
        files: vec![FileSpec { path: "data.bin".into(), len: total }],
        announce: "http://tracker.sim:6969/announce".into(),
        pad: String::new(),
        phantom: false,
    }
}

pub fn base_plan(profile: &str, seed: u64, g: Geometry) -> Plan {
    let mut r = Rng64::sub(seed, "plan-base");
    Plan {
        profile: profile.into(),
        seed,
        geometry: g,
        content_seed: r.next_u64(),
        own_id: "-RD0001-verifsim0001".into(),
        tokio_seed: r.next_u64(),
        fs_yield_pm: 0,
        // a third of all runs perturb the task schedule at channel operations
        sched_yield_pm: *r.pick(&[0u32, 0, 0, 0, 30, 150, 400]),
        chan_cap: None,
        disk_fail_writes: vec![],
        disk_fail_reads: vec![],
        disk_full_from: None,
        preexisting: vec![],
        tracker: TrackerPlan { steps: vec![] },
        peers: vec![],
        deadline_ms: 60_000,
        linger_ms: 2_000,
        stop_on_done: true,
    }
}

pub fn good_tracker(p: &mut Plan, lat: u64) {
    let names: Vec<String> = p.peers.iter().filter(|x| x.listed).map(|x| x.name.clone()).collect();
    p.tracker.steps.push((lat, TrackerStep::Good { peers: names, malformed: 0, wrong_id_for: vec![] }));
}

pub fn step(when: When, act: Act) -> Step {
    Step { when, act }
}

// ---------------------------------------------------------------------------------------------
// geometry

pub fn gen_piece_len(r: &mut Rng64, small: bool) -> u64 {
    if small {
        match r.below(10) {
            0 => *r.pick(&[1u64, 2, 3, 7, 16, 64, 100, 512]),
            _ => r.range(1, 600),
        }
    } else {
        match r.below(10) {
            0..=5 => *r.pick(&[16383u64, 16384, 16385, 32768, 40000, 49159, 20000, 32769, 16384 * 3]),
            6..=7 => r.range(1000, 50_000),
            _ => r.range(1, 2000),
        }
    }
}

pub fn gen_files(r: &mut Rng64, piece_len: u64, total: u64) -> (bool, Vec<FileSpec>) {
    let k = match r.below(10) {
        0..=2 => 1,
        3..=5 => r.range(2, 3),
        _ => r.range(2, 8),
    } as usize;
    if k == 1 {
        let single = r.chance(3, 4);
        return (single, vec![FileSpec { path: "only.bin".into(), len: total }]);
    }
    // k-1 cut positions in [0,total]
    let mut cuts: Vec<u64> = Vec::new();
    let mut prev = 0u64;
    for _ in 0..k - 1 {
        let c = match r.below(10) {
            // on a piece boundary
            0..=2 => (r.range(0, total / piece_len)) * piece_len,
            // same position as the previous cut: zero-length file
            3 => prev,
            // close to the previous cut (several files inside one piece)
            4..=5 => (prev + r.range(0, piece_len.min(40))).min(total),
            _ => r.range(0, total),
        }
        .min(total);
        cuts.push(c);
        prev = c;
    }
    cuts.sort();
    let mut files = Vec::new();
    let mut last = 0u64;
    let dirs = ["", "", "d1/", "d1/d2/", "x y/"];
    for (i, c) in cuts.iter().chain(std::iter::once(&total)).enumerate() {
        let d = r.pick(&dirs);
        files.push(FileSpec { path: format!("{}f{}.bin", d, i), len: c - last });
        last = *c;
    }
    (false, files)
}

pub fn gen_geometry(r: &mut Rng64, max_pieces: usize, small: bool) -> Geometry {
    gen_geometry_with(r, max_pieces, small, false)
}

/// `huge`: piece lengths around and above the client's own default (256 KiB) and its read
/// buffers; few pieces, so the run stays cheap.
pub fn gen_geometry_with(r: &mut Rng64, max_pieces: usize, small: bool, huge: bool) -> Geometry {
    let piece_len = if huge {
        *r.pick(&[262_143u64, 262_144, 262_145, 278_528, 300_001, 524_288, 1_048_576, 2_097_153, 2_200_000])
    } else {
        gen_piece_len(r, small)
    };
    let mut n = if r.chance(1, 2) { r.range(1, 5.min(max_pieces as u64)) } else { r.range(1, max_pieces as u64) };
    let cap = if huge { 4_500_000u64 } else { 300_000u64 };
    while n > 1 && n * piece_len > cap {
        n -= 1;
    }
    let last = if r.chance(3, 10) { piece_len } else { r.range(1, piece_len) };
    let total = (n - 1) * piece_len + last;
    let (single, files) = gen_files(r, piece_len, total);
    Geometry {
        piece_len,
        name: if single { "single.out".into() } else { "bundle".into() },
        single,
        files,
        announce: "http://tracker.sim:6969/announce".into(),
        pad: String::new(),
        phantom: false,
    }
}

pub fn gen_net(r: &mut Rng64, calm: bool) -> NetPlan {
    if calm {
        return NetPlan::default();
    }
    let lat_min = *r.pick(&[1u64, 1, 1, 5, 20, 100]);
    let lat_max = lat_min + *r.pick(&[0u64, 0, 1, 10, 50, 200]);
    let seg = match r.below(8) {
        0..=2 => Seg::Whole,
        3 => Seg::Cuts(3),
        4 => Seg::Boundary,
        5 => Seg::Bytewise,
        6 => Seg::Glue,
        _ => Seg::Cuts(1),
    };
    let pm = |r: &mut Rng64| *r.pick(&[0u32, 0, 0, 10, 100, 300]);
    NetPlan { lat_min, lat_max, seg, short_read_pm: pm(r), short_write_pm: pm(r), yield_pm: *r.pick(&[0u32, 0, 10, 100]) }
}

// ---------------------------------------------------------------------------------------------
// profiles: download-centric

/// One honest seeder, no faults: all variation goes into piece length x file list.
pub fn geometry(seed: u64) -> Plan {
    let mut r = Rng64::sub(seed, "geometry");
    let huge = Rng64::sub(seed, "geometry-huge").chance(1, 25);
    let g = gen_geometry_with(&mut r, if huge { 4 } else { 12 }, true, huge);
    let n = g.pieces();
    let mut p = base_plan("geometry", seed, g);
    p.peers.push(base_peer(0, n));
    good_tracker(&mut p, 1);
    // restart after a crash: stale (truncated or garbage) piece files of an earlier run
    {
        let mut h = Rng64::sub(seed, "geometry-stale");
        if h.chance(1, 10) {
            for _ in 0..h.range(1, 3) {
                p.preexisting.push((h.below(n as u64) as u32, 1 + h.below(2) as u8));
            }
        }
    }
    p.deadline_ms = 30_000;
    p.linger_ms = 500;
    p
}

fn hostile_component(r: &mut Rng64) -> String {
    // ordinary names that only look like dot components (an ordinary character must stay one)
    if r.chance(1, 8) {
        return r.pick(&[".. ", "..\t", " ..", ". ", "...", ".. .", "a "]).to_string();
    }
    match r.below(10) {
        0..=2 => "..".into(),
        3 => ".".into(),
        4 => "".into(),
        5 => "a b".into(),
        _ => format!("n{}", r.below(4)),
    }
}

fn hostile_path(r: &mut Rng64) -> String {
    let k = r.range(1, 4);
    let mut parts: Vec<String> = (0..k).map(|_| hostile_component(r)).collect();
    if parts.last().map(|s| s.is_empty() || s == "." || s == "..").unwrap_or(true) {
        parts.push(format!("f{}", r.below(3)));
    }
    let mut s = parts.join("/");
    if r.chance(1, 5) {
        s = format!("/{}", s);
    }
    if r.chance(1, 8) {
        s = format!("/abs{}/{}", r.below(3), s);
    }
    // Windows-style separators: an ordinary character on this platform, and it must stay one
    if r.chance(1, 6) {
        s = s.replace('/', "\\");
    }
    s
}

/// Names and paths with "..", ".", empty and absolute components; cheap world as in `geometry`.
pub fn hostile_names(seed: u64) -> Plan {
    let mut r = Rng64::sub(seed, "hostile");
    let mut g = gen_geometry(&mut r, 6, true);
    if g.single {
        g.name = hostile_path(&mut r);
    } else {
        if r.chance(1, 2) {
            g.name = hostile_path(&mut r);
        }
        let mut used = std::collections::BTreeSet::new();
        for f in g.files.iter_mut() {
            if r.chance(2, 3) {
                let mut cand = hostile_path(&mut r);
                while used.contains(&cand) {
                    cand.push('x');
                }
                f.path = cand;
            }
            used.insert(f.path.clone());
        }
    }
    // BEP47 padding entries (".pad/<n>") among the files: a client may skip them, the entries
    // around them are files like any other (zero length here, so the layout stays what it was)
    if !g.single && Rng64::sub(seed, "hostile-pad").chance(1, 5) {
        let mut h = Rng64::sub(seed, "hostile-pad-plan");
        let at = h.usize_below(g.files.len() + 1);
        g.files.insert(at, FileSpec { path: format!(".pad/{}", h.below(1000)), len: 0 });
    }
    // a torrent of empty files only: no pieces at all (the download is complete before it starts)
    if !g.single && Rng64::sub(seed, "hostile-empty").chance(1, 15) {
        for f in g.files.iter_mut() {
            f.len = 0;
        }
    }
    let n = g.pieces();
    let mut p = base_plan("hostile-names", seed, g);
    p.peers.push(base_peer(0, n));
    if n == 0 {
        // nothing to fetch: the peer leaves, and the client finds itself complete
        p.peers[0].script.push(step(When::At(200), Act::CloseFin));
    }
    good_tracker(&mut p, 1);
    p.deadline_ms = 3_000;
    p.linger_ms = 500;
    p
}

fn alnum_id(r: &mut Rng64) -> String {
    const A: &[u8] = b"ABCDEFGHIJKLMNOPQRSTUVWXYZabcdefghijklmnopqrstuvwxyz0123456789";
    (0..20).map(|_| A[r.usize_below(A.len())] as char).collect()
}

/// Announce URLs with/without query, ports, path depth; ids; lengths; info-hash bytes steered
/// through a pad key inside `info`.
pub fn announce_url(seed: u64) -> Plan {
    let mut r = Rng64::sub(seed, "announce-url");
    let piece_len = *r.pick(&[64u64, 512, 16384]);
    let total = match r.below(4) {
        0 => r.range(1, 100),
        1 => r.range(100, 5000),
        _ => r.range(1, 40_000),
    };
    let mut g = simple_geometry(piece_len, total);
    let host = r.pick(&["tracker.sim", "10.1.2.3", "t.example.org"]).to_string();
    let port = match r.below(3) {
        0 => String::new(),
        _ => format!(":{}", r.range(1, 65535)),
    };
    let path = r
        .pick(&["/announce", "/a/b/announce", "/", "/announce.php", "/x%20y/ann", "/announce/", "/tracker/p4ssk3y/", "", "//announce", "/c++/announce", "/a+b"])
        .to_string();
    let query = match r.below(10) {
        0..=3 => String::new(),
        4 => "?passkey=abc123".to_string(),
        5 => "?k=v&uid=77&flag".to_string(),
        6 => "?".to_string(),
        // a literal '?' inside the existing query is legal (RFC 3986 3.4)
        7 => "?k=v&q=what?".to_string(),
        8 => "?ref=http://mirror.example/a?b&passkey=s3cr3t".to_string(),
        _ => r
            .pick(&[
                "?a=b&",
                "?ret=/home/",
                "?k=v=w&x=",
                "?a=1&a=2",
                "?K=V%26W",
                "?transport=tcp",
                "?support=1&passport=x7",
                "?cleft=5&my_peer_id=zz",
                "?xinfo_hash=q&reuploaded=1",
                "?prevent=started&renumwant=3",
                "?tag=a+b&c=1",
                "?passkey=%FF%FE%01ab&x=%E9t%E9",
            ])
            .to_string(),
    };
    let scheme = if r.chance(1, 10) { *r.pick(&["HTTP", "Http", "hTTp"]) } else { "http" };
    g.announce = format!("{}://{}{}{}{}", scheme, host, port, path, query);
    // declared lengths around and beyond 32 bits (nothing is downloaded in this profile)
    let phantom = r.chance(1, 6);
    if phantom {
        let total = *r.pick(&[(1u64 << 32) - 1, 1 << 32, (1 << 32) + 1, (1 << 32) + 123_456_789, 5_000_000_000, 1 << 33, (1 << 40) + 7, (1 << 31) + 5]);
        let mut pl = 1u64 << 24;
        while total / pl > 600 {
            pl *= 2;
        }
        g = simple_geometry(pl, total);
        g.announce = format!("{}://{}{}{}{}", scheme, host, port, path, query);
        g.phantom = true;
        if r.chance(1, 2) {
            // several files, each below 4 GiB, together above
            let k = r.range(2, 5);
            let mut left = total;
            let mut files = Vec::new();
            for i in 0..k {
                let l = if i + 1 == k { left } else { (left / (k - i)).min(u32::MAX as u64 - r.range(0, 1000)) };
                files.push(FileSpec { path: format!("f{}.bin", i), len: l });
                left -= l;
            }
            g.single = false;
            g.name = "bundle".into();
            g.files = files;
        }
    }
    // grind the pad until the info-hash contains the byte aimed at
    let target = (seed % 256) as u8;
    // content and piece hashes do not depend on the pad: hash them once, then only re-hash the
    // (small) info dictionary per attempt
    let content_seed = Rng64::sub(seed, "plan-base").next_u64();
    let concat: Vec<u8> = crate::torrent::build(&g, content_seed).piece_hashes.concat();
    let mut best = String::new();
    for t in 0..40u32 {
        let pad = format!("{}-{}", seed, t);
        g.pad = pad.clone();
        let ih = crate::codec::sha1(&crate::torrent::info_dict(&g, concat.clone()).encode());
        best = pad;
        if ih.contains(&target) {
            break;
        }
    }
    g.pad = best;
    let n = g.pieces();
    let mut p = base_plan("announce-url", seed, g);
    p.own_id = alnum_id(&mut r);
    if !phantom {
        p.peers.push(base_peer(0, n));
    }
    good_tracker(&mut p, 1);
    p.deadline_ms = 5_000;
    p.stop_on_done = false;
    p
}

fn split_has(r: &mut Rng64, n: usize, k: usize) -> Vec<Vec<bool>> {
    // every piece goes to at least one of k peers; extra copies at random
    let mut v = vec![vec![false; n]; k];
    for i in 0..n {
        let owner = r.usize_below(k);
        v[owner][i] = true;
        for x in v.iter_mut() {
            if r.chance(1, 3) {
                x[i] = true;
            }
        }
    }
    v
}

fn honest_flaps(r: &mut Rng64, peer: &mut PeerPlan, end_unchoked: bool) {
    // finitely many choke/unchoke pairs, all timed from the same trigger so their order is fixed
    let k = r.range(1, 3);
    let c = r.range(1, 6) as u32;
    let mut t = r.range(0, 400);
    peer.strict_choke = true;
    for j in 0..k {
        let dur = r.range(1, 3000);
        peer.script.push(step(When::AfterRx { kind: "Request".into(), count: c, plus: t }, Act::Choke));
        if end_unchoked || j + 1 < k || r.chance(1, 2) {
            peer.script.push(step(When::AfterRx { kind: "Request".into(), count: c, plus: t + dur }, Act::Unchoke));
        }
        t += dur + r.range(10, 2000);
    }
}

/// All peers honest; every piece is held by an essential peer (listed, accepting, unchoking).
pub fn honest_swarm(seed: u64) -> Plan {
    let mut r = Rng64::sub(seed, "honest-swarm");
    let small = r.chance(2, 3);
    let mut g = gen_geometry(&mut r, 40, small);
    // now and then pieces around and above the client's own default piece length (256 KiB)
    if Rng64::sub(seed, "honest-huge").chance(1, 40) {
        g = gen_geometry_with(&mut Rng64::sub(seed, "honest-huge-geometry"), 3, false, true);
    }
    // now and then a torrent with a few hundred tiny pieces (multi-byte bitfields, long end game)
    if r.chance(1, 16) {
        let pl = r.range(8, 48);
        let np = r.range(90, 300);
        g = simple_geometry(pl, np * pl - r.range(0, pl - 1));
    }
    let n = g.pieces();
    let mut p = base_plan("honest-swarm", seed, g);
    let calm = r.chance(1, 4);
    let n_ess = r.range(1, 4) as usize;
    let hs = if r.chance(1, 3) { vec![vec![true; n]; n_ess] } else { split_has(&mut r, n, n_ess) };
    let mut k = 0usize;
    for h in hs {
        let mut peer = base_peer(k, n);
        peer.has = h;
        // an essential peer is reachable whenever the client dials it (the client drops and
        // re-dials a drained partial seed many times while that peer is still gaining pieces)
        peer.max_accepts = 1_000_000;
        peer.net = gen_net(&mut r, calm);
        peer.unchoke = Unchoke::OnInterested(r.range(1, 20_000));
        peer.answer.delay_min = 0;
        peer.answer.delay_max = *r.pick(&[0u64, 0, 5, 50, 500]);
        peer.answer.fifo = r.chance(1, 2);
        peer.keepalive = Some(r.range(20_000, 110_000));
        if r.chance(1, 3) {
            peer.bitfield = BitfieldMode::AsHaves;
        }
        // Have-driven growth: start without some pieces, gain them early
        if r.chance(1, 3) {
            for i in 0..n {
                if peer.has[i] && r.chance(1, 3) {
                    peer.has[i] = false;
                    peer.script.push(step(When::At(r.range(10, 60_000)), Act::Gain(i as u32)));
                }
            }
        }
        if r.chance(1, 4) {
            honest_flaps(&mut r, &mut peer, true);
        }
        // essential peers may be leechers themselves: interested in us, asking for what we own
        if r.chance(1, 3) {
            peer.script.push(step(When::At(r.range(0, 5_000)), Act::Send(Msg::Interested)));
            for _ in 0..r.range(0, 3) {
                peer.script.push(step(When::At(r.range(1_000, 60_000)), Act::RequestOwned(1)));
            }
        }
        peer.essential = true;
        p.peers.push(peer);
        k += 1;
    }
    // non-essential honest peers
    let n_other = if calm { r.range(0, 2) } else { r.range(0, 8) } as usize;
    for _ in 0..n_other {
        let mut peer = base_peer(k, n);
        peer.essential = false;
        peer.max_accepts = r.range(1, 3) as u32;
        peer.net = gen_net(&mut r, calm);
        peer.has = match r.below(4) {
            0 => vec![true; n],
            1 => vec![false; n],
            _ => (0..n).map(|_| r.chance(1, 2)).collect(),
        };
        if peer.has.iter().all(|h| !*h) && r.chance(1, 2) {
            peer.bitfield = BitfieldMode::Omit;
        }
        peer.keepalive = Some(r.range(20_000, 110_000));
        peer.answer.delay_max = *r.pick(&[0u64, 5, 100, 1000]);
        peer.answer.fifo = r.chance(1, 2);
        match r.below(8) {
            0 => peer.unchoke = Unchoke::Never,
            1 => peer.accept = Accept::Refuse,
            2 => peer.accept = Accept::Timeout(r.range(1000, 130_000)),
            3..=4 => honest_flaps(&mut r, &mut peer, false),
            _ => {}
        }
        // disconnects at arbitrary moments
        match r.below(6) {
            0 => peer.script.push(step(When::At(r.range(0, 30_000)), if r.chance(1, 2) { Act::CloseFin } else { Act::CloseRst })),
            1 => peer.script.push(step(
                When::AfterTxBlocks { count: r.range(1, 8) as u32, plus: r.range(0, 50) },
                if r.chance(1, 2) { Act::CloseFin } else { Act::CloseRst },
            )),
            2 => {
                // truncated block frame then close
                let cutlen = r.range(1, 30) as usize;
                let m = Msg::Piece { index: 0, begin: 0, block: vec![0u8; 64] }.encode();
                let at = r.range(10, 20_000);
                peer.script.push(step(When::At(at), Act::Raw(m[..cutlen.min(m.len() - 1)].to_vec())));
                peer.script.push(step(When::At(at + 1), if r.chance(1, 2) { Act::CloseFin } else { Act::CloseRst }));
            }
            _ => {}
        }
        // some dial in as well (honest leechers: interested, request what the client announced)
        if r.chance(1, 4) {
            peer.dial_in = vec![r.range(0, 60_000)];
            peer.listed = r.chance(1, 2);
            // cross-connect from the listening port while we may be dialling it ourselves
            if peer.listed && r.chance(1, 2) {
                peer.dial_in_same_addr = true;
                peer.max_accepts = peer.max_accepts.max(2);
            }
            peer.script.push(step(When::At(r.range(1, 500)), Act::Send(Msg::Interested)));
            peer.script.push(step(When::AfterRx { kind: "Unchoke".into(), count: 1, plus: r.range(1, 200) }, Act::RequestOwned(r.range(1, 4) as u32)));
        }
        p.peers.push(peer);
        k += 1;
    }
    // late sole source: one essential peer, interested in us from the start, obtains pieces
    // nobody else has only after everything else it offered has been fetched from it
    if r.chance(1, 5) {
        let e = r.usize_below(n_ess);
        let late: Vec<usize> = (0..n).filter(|_| r.chance(1, 4)).take(2).collect();
        for i in &late {
            for q in p.peers.iter_mut() {
                q.has[*i] = false;
                q.script.retain(|s| s.act != Act::Gain(*i as u32));
            }
        }
        let peer = &mut p.peers[e];
        peer.script.push(step(When::At(0), Act::Send(Msg::Interested)));
        // and it stays chatty (legal repeats), so the inactivity rule never recycles the connection
        if r.chance(2, 3) {
            let mut t = r.range(30_000, 100_000);
            while t < 3_600_000 {
                peer.script.push(step(When::At(t), Act::Send(Msg::Interested)));
                t += r.range(30_000, 110_000);
            }
        }
        for i in &late {
            peer.script.push(step(When::At(r.range(3_000, 45_000)), Act::Gain(*i as u32)));
        }
    }
    // sole source announced while somebody else is being asked: a piece only a short-lived peer
    // has at first; an essential peer (interested in us, chatty) gains and announces it while the
    // short-lived one sits on the request, then the short-lived one disconnects without answering
    if Rng64::sub(seed, "honest-handover").chance(1, 8) {
        let mut h = Rng64::sub(seed, "honest-handover-plan");
        let e = h.usize_below(n_ess);
        let x = h.usize_below(n);
        for q in p.peers.iter_mut() {
            q.has[x] = false;
            q.script.retain(|s| s.act != Act::Gain(x as u32));
        }
        let t_close = h.range(1_500, 20_000);
        let mut q = base_peer(k, n);
        q.essential = false;
        q.has = vec![false; n];
        q.has[x] = true;
        q.unchoke = Unchoke::OnInterested(h.range(1, 300));
        let blocks = ((p.geometry.piece_len_of(x) + 16383) / 16384) as u32;
        // it answers all blocks but one, or none
        if h.chance(1, 2) {
            for b in 0..blocks {
                q.answer.withhold.push((x as u32, b));
            }
        } else {
            q.answer.withhold.push((x as u32, h.below(blocks as u64) as u32));
        }
        q.script.push(step(When::At(t_close), if h.chance(1, 2) { Act::CloseFin } else { Act::CloseRst }));
        p.peers.push(q);
        let peer = &mut p.peers[e];
        peer.script.push(step(When::At(0), Act::Send(Msg::Interested)));
        let mut t = h.range(30_000, 100_000);
        while t < 3_600_000 {
            peer.script.push(step(When::At(t), Act::Send(Msg::Interested)));
            t += h.range(30_000, 110_000);
        }
        peer.script.push(step(When::At(h.range(300, t_close)), Act::Gain(x as u32)));
    }
    // a partial seed that repeats its Unchoke while its only piece is in flight, with plenty of
    // other pieces still missing (nothing else can be assigned to it at that moment)
    if n >= 12 && Rng64::sub(seed, "honest-repeat-unchoke").chance(1, 10) {
        let mut h = Rng64::sub(seed, "honest-repeat-unchoke-plan");
        let x = h.usize_below(n);
        for q in p.peers.iter_mut() {
            q.has[x] = false;
            q.script.retain(|s| s.act != Act::Gain(x as u32));
        }
        let mut q = base_peer(k + 1, n);
        q.essential = true;
        q.max_accepts = 1_000_000;
        q.has = vec![false; n];
        q.has[x] = true;
        q.unchoke = Unchoke::OnInterested(h.range(1, 300));
        q.answer.delay_min = h.range(200, 2_000);
        q.answer.delay_max = q.answer.delay_min;
        q.keepalive = Some(h.range(20_000, 110_000));
        q.script.push(step(When::AfterRx { kind: "Request".into(), count: 1, plus: h.range(0, 150) }, Act::RepeatChokeState));
        // chatty, so that the inactivity rule does not recycle the connection
        q.script.push(step(When::At(0), Act::Send(Msg::Interested)));
        let mut t = h.range(30_000, 100_000);
        while t < 3_600_000 {
            q.script.push(step(When::At(t), Act::Send(Msg::Interested)));
            t += h.range(30_000, 110_000);
        }
        p.peers.push(q);
        // the others are slow enough for ten pieces to be still missing
        for q in p.peers.iter_mut().take(n_ess) {
            q.answer.delay_min = q.answer.delay_min.max(300);
            q.answer.delay_max = q.answer.delay_max.max(q.answer.delay_min);
        }
    }
    // honest peers may repeat themselves: Choke while choking, Unchoke while not choking
    for (j, peer) in p.peers.iter_mut().enumerate() {
        let mut h = Rng64::sub(seed ^ (j as u64 + 1), "honest-redundant");
        if h.chance(1, 8) {
            for _ in 0..h.range(1, 3) {
                let when = if h.chance(1, 2) {
                    When::AfterRx { kind: "Request".into(), count: h.range(1, 6) as u32, plus: h.range(0, 3000) }
                } else {
                    When::At(h.range(100, 60_000))
                };
                peer.script.push(step(when, Act::RepeatChokeState));
            }
        }
    }
    // network partitions that heal (any peer; an honest peer cannot help them)
    for peer in p.peers.iter_mut() {
        if r.chance(1, 8) {
            for _ in 0..r.range(1, 2) {
                peer.script.push(step(When::At(r.range(0, 120_000)), Act::Partition(r.range(500, 90_000))));
            }
        }
    }
    // tracker lists the peers in a seeded order
    let mut names: Vec<String> = p.peers.iter().filter(|x| x.listed).map(|x| x.name.clone()).collect();
    r.shuffle(&mut names);
    p.tracker.steps.push((r.range(1, 300), TrackerStep::Good { peers: names, malformed: 0, wrong_id_for: vec![] }));
    p.deadline_ms = 3_600_000;
    p.linger_ms = 1_000;
    p.fs_yield_pm = *r.pick(&[0u32, 0, 100]);
    let _ = BLOCK;
    p
}

// ---------------------------------------------------------------------------------------------
// rig A streams

fn stream_element(r: &mut Rng64, big_ok: bool) -> Vec<u8> {
    let ih: [u8; 20] = {
        let mut x = [0u8; 20];
        r.fill(&mut x);
        x
    };
    let m = match r.below(16) {
        0 => Msg::KeepAlive,
        1 => Msg::Choke,
        2 => Msg::Unchoke,
        3 => Msg::Interested,
        4 => Msg::NotInterested,
        5 => Msg::Have(r.next_u32()),
        6 => {
            let l = *r.pick(&[0usize, 1, 2, 5, 40, 300]);
            Msg::Bitfield(r.bytes(l))
        }
        7 => Msg::Request { index: r.next_u32(), begin: r.next_u32(), len: r.next_u32() },
        8 => Msg::Cancel { index: r.next_u32(), begin: r.next_u32(), len: r.next_u32() },
        9 | 10 => {
            let l = if big_ok && r.chance(1, 12) { *r.pick(&[16384usize, 65527, 65526]) } else { *r.pick(&[0usize, 1, 2, 100, 1000]) };
            Msg::Piece { index: r.next_u32(), begin: r.next_u32(), block: r.bytes(l) }
        }
        11 => Msg::handshake(&ih, &ih),
        _ => {
            // unknown id, never 84 (that is the handshake marker)
            let mut id = *r.pick(&[9u8, 10, 13, 14, 15, 16, 17, 20, 21, 23, 100, 200, 255]);
            if id == 84 {
                id = 85;
            }
            let l = if big_ok && r.chance(1, 12) { *r.pick(&[16384usize, 65535]) } else { *r.pick(&[0usize, 1, 5, 50, 300, 300, 2000]) };
            Msg::Unknown { id, payload: r.bytes(l) }
        }
    };
    m.encode()
}

fn fatal_element(r: &mut Rng64) -> Vec<u8> {
    let mut v = Vec::new();
    match r.below(9) {
        0 => {
            // oversized frame with a known id
            // (now and then with 19 as the first length byte, like the first byte of a handshake)
            let l = if r.chance(1, 4) { 0x1300_0000u32 + r.below(0x00FF_FFFF) as u32 } else { 65537u32 + r.below(100_000) as u32 };
            v.extend_from_slice(&l.to_be_bytes());
            v.push(*r.pick(&[5u8, 7]));
        }
        1 => {
            // oversized frame with an unknown id
            v.extend_from_slice(&(*r.pick(&[65537u32, 0x7FFF_FFFF, 0xFFFF_FFFF, 1 << 20, 0x1300_0000, 0x1300_0044, 0x13FF_FFFF])).to_be_bytes());
            v.push(*r.pick(&[9u8, 20, 255]));
        }
        2 => {
            // choke-family with a payload
            v.extend_from_slice(&(*r.pick(&[2u32, 3, 100])).to_be_bytes());
            v.push(r.below(4) as u8);
        }
        3 => {
            v.extend_from_slice(&(*r.pick(&[1u32, 4, 6, 9])).to_be_bytes());
            v.push(4);
        }
        4 => {
            v.extend_from_slice(&(*r.pick(&[1u32, 12, 14, 17])).to_be_bytes());
            v.push(*r.pick(&[6u8, 8]));
        }
        5 => {
            // piece shorter than its header
            v.extend_from_slice(&(*r.pick(&[1u32, 5, 8])).to_be_bytes());
            v.push(7);
        }
        6 => {
            // looks like a handshake (5th byte 'T') but the first byte is not 19
            v.extend_from_slice(&[18, b'B', b'i', b't', b'T']);
        }
        7 => {
            // handshake with a wrong protocol string
            v.push(19);
            v.extend_from_slice(b"BitTorrent protocoX");
            v.extend_from_slice(&[0u8; 48]);
            return v;
        }
        _ => {
            // wrong protocol string, or the right one under a wrong length byte
            if r.chance(1, 2) {
                v.push(19);
                v.extend_from_slice(b"BitTorrent_protocol");
            } else {
                v.push(*r.pick(&[20u8, 32, 255, 18]));
                v.extend_from_slice(b"BitTorrent protocol");
            }
            v.extend_from_slice(&[0u8; 48]);
            return v;
        }
    }
    // some payload bytes so that fixed-length frames are "complete" under their stated length
    let extra = r.range(0, 20) as usize;
    v.extend(r.bytes(extra));
    v
}

/// (elements, index of the fatal element if any)
fn gen_stream(r: &mut Rng64, big_ok: bool) -> (Vec<Vec<u8>>, Option<usize>) {
    let n = r.range(1, 10) as usize;
    let mut els: Vec<Vec<u8>> = (0..n).map(|_| stream_element(r, big_ok)).collect();
    let mut fatal = None;
    if r.chance(35, 100) {
        let at = r.usize_below(els.len() + 1);
        els.truncate(at);
        els.push(fatal_element(r));
        fatal = Some(at);
    }
    (els, fatal)
}

fn cut_stream(r: &mut Rng64, els: &[Vec<u8>], variant: u64) -> Vec<Vec<u8>> {
    let total: Vec<u8> = els.concat();
    let n = total.len();
    let mut points: Vec<usize> = Vec::new();
    match variant {
        0 => {
            // element boundaries (or a single chunk)
            if r.chance(1, 2) {
                let mut p = 0;
                for e in els {
                    p += e.len();
                    points.push(p);
                }
            }
        }
        1 => {
            for _ in 0..r.range(1, 8) {
                points.push(r.range(1, n.max(2) as u64 - 1) as usize);
            }
        }
        2 => {
            let mut p = 0usize;
            for e in els {
                for d in [1usize, 3, 4, 5, 6] {
                    if r.chance(1, 2) {
                        points.push(p + d);
                    }
                }
                p += e.len();
                for d in [-1i64, 0, 1] {
                    if r.chance(1, 2) {
                        points.push((p as i64 + d).max(0) as usize);
                    }
                }
            }
        }
        _ => {
            if n <= 600 {
                points = (1..n).collect();
            } else {
                for _ in 0..20 {
                    points.push(r.range(1, n as u64 - 1) as usize);
                }
            }
        }
    }
    points.retain(|p| *p > 0 && *p < n);
    points.sort();
    points.dedup();
    let mut out = Vec::new();
    let mut prev = 0;
    for p in points {
        out.push(total[prev..p].to_vec());
        prev = p;
    }
    out.push(total[prev..].to_vec());
    out.retain(|c| !c.is_empty());
    out
}

/// Rig A: `seed / 4` selects the stream, `seed % 4` the segmentation.
pub fn riga_stream(seed: u64) -> Plan {
    let variant = seed % 4;
    let mut r = Rng64::sub(seed / 4, "riga-stream");
    let (mut els, fatal) = gen_stream(&mut r, true);
    let truncated = fatal.is_none() && r.chance(1, 4);
    if truncated {
        let total: Vec<u8> = els.concat();
        if total.len() > 1 {
            let cut = r.range(1, total.len() as u64 - 1) as usize;
            els = vec![total[..cut].to_vec()];
        }
    }
    let ending = r.below(3);
    let mut rs = Rng64::sub(seed, "riga-seg");
    let mut chunks = cut_stream(&mut rs, &els, variant);
    if fatal.is_some() {
        // >= 192 KiB of filler after the malformed frame, in 16 KiB reads
        let filler_kind = r.below(3);
        for _ in 0..12 {
            chunks.push(match filler_kind {
                0 => vec![0u8; 16384],
                1 => r.bytes(16384),
                _ => Msg::Have(1).encode().repeat(1820),
            });
        }
    }
    let mut p = base_plan("riga-stream", seed, simple_geometry(64, 64));
    let mut peer = base_peer(0, 1);
    peer.net.short_read_pm = *rs.pick(&[0u32, 0, 200, 700]);
    peer.net.yield_pm = *rs.pick(&[0u32, 0, 100]);
    for (k, c) in chunks.into_iter().enumerate() {
        peer.script.push(step(When::At(k as u64), Act::Raw(c)));
    }
    match ending {
        0 => peer.script.push(step(When::At(1_000_000), Act::CloseFin)),
        1 => peer.script.push(step(When::At(1_000_000), Act::CloseRst)),
        _ => {}
    }
    p.peers.push(peer);
    p
}

/// Rig D counterpart: a peer with a correct handshake sends such a stream to the real task.
pub fn garbage_peer(seed: u64) -> Plan {
    let mut r = Rng64::sub(seed, "garbage-peer");
    let g = simple_geometry(64, 64 * r.range(2, 6));
    let n = g.pieces();
    let mut p = base_plan("garbage-peer", seed, g);
    let mut seeder = base_peer(0, n);
    seeder.unchoke = Unchoke::Never; // keeps the session busy without finishing
    p.peers.push(seeder);
    let k = r.range(1, 3) as usize;
    for j in 1..=k {
        let mut peer = base_peer(j, n);
        peer.has = vec![false; n];
        peer.unchoke = Unchoke::Never;
        peer.keepalive = None;
        if r.chance(1, 2) {
            peer.listed = false;
            peer.dial_in = vec![r.range(0, 2000)];
        }
        let (els, fatal) = gen_stream(&mut r, false);
        let mut els = els;
        let truncated = fatal.is_none() && r.chance(1, 2);
        if truncated {
            let total: Vec<u8> = els.concat();
            if total.len() > 1 {
                let cut = r.range(1, total.len() as u64 - 1) as usize;
                els = vec![total[..cut].to_vec()];
            }
        }
        let variant = r.below(4);
        let chunks = cut_stream(&mut r, &els, variant);
        let mut t = r.range(50, 3000);
        for c in chunks {
            peer.script.push(step(When::At(t), Act::Raw(c)));
            t += *r.pick(&[1u64, 1, 5, 100, 2000]);
        }
        if fatal.is_some() {
            for _ in 0..r.range(0, 3) {
                peer.script.push(step(When::At(t), Act::Raw(r.bytes(2000))));
                t += 10;
            }
        }
        match r.below(4) {
            0 => peer.script.push(step(When::At(t + r.range(1, 5000)), Act::CloseFin)),
            1 => peer.script.push(step(When::At(t + r.range(1, 5000)), Act::CloseRst)),
            _ => {}
        }
        p.peers.push(peer);
    }
    good_tracker(&mut p, 1);
    p.deadline_ms = 100_000;
    p.stop_on_done = false;
    p
}

// ---------------------------------------------------------------------------------------------
// wire-level profiles

pub fn tiling(seed: u64) -> Plan {
    let mut r = Rng64::sub(seed, "tiling");
    let piece_len = match r.below(10) {
        0..=6 => *r.pick(&[1u64, 16383, 16384, 16385, 32768, 32767, 40000, 49159, 49152, 65536, 20000, 100]),
        _ => r.range(1, 70_000),
    };
    // now and then pieces around and above the client's own default piece length (256 KiB)
    let big = Rng64::sub(seed, "tiling-big").chance(1, 30);
    let piece_len = if big { *Rng64::sub(seed, "tiling-big-len").pick(&[262_144u64, 262_145, 278_529, 524_288]) } else { piece_len };
    let n = if big { r.range(1, 2) } else { r.range(1, 4) };
    let last = if r.chance(1, 3) { piece_len } else { r.range(1, piece_len) };
    let g = simple_geometry(piece_len, (n - 1) * piece_len + last);
    let n = g.pieces();
    let mut p = base_plan("tiling", seed, g);
    let k = r.range(1, 3) as usize;
    for j in 0..k {
        let mut peer = base_peer(j, n);
        let calm_ = r.chance(1, 3);
        peer.net = gen_net(&mut r, calm_);
        peer.answer.delay_max = *r.pick(&[0u64, 0, 3, 40, 400]);
        peer.answer.fifo = r.chance(1, 2);
        peer.answer.dup_pm = *r.pick(&[0u32, 0, 200, 1000]);
        if r.chance(1, 4) {
            let blocks = ((piece_len + 16383) / 16384) as u32;
            peer.answer.withhold.push((r.below(n as u64) as u32, r.below(blocks as u64) as u32));
            // choke and unchoke later so that the piece is assigned afresh
            peer.strict_choke = true;
            let c = r.range(1, 4) as u32;
            peer.script.push(step(When::AfterRx { kind: "Request".into(), count: c, plus: 300 }, Act::Choke));
            peer.script.push(step(When::AfterRx { kind: "Request".into(), count: c, plus: 300 + r.range(1, 500) }, Act::Unchoke));
        }
        if r.chance(1, 4) {
            honest_flaps(&mut r, &mut peer, true);
        }
        // the peer is a downloader too: it asks us for something (we have nothing yet, or we choke
        // it) while we are fetching from it
        {
            let mut h = Rng64::sub(seed ^ (j as u64 + 1), "tiling-peer-requests");
            if h.chance(1, 4) {
                let idx = h.below(n as u64) as u32;
                let l = (piece_len.min(16384)) as u32;
                peer.script.push(step(When::AfterRx { kind: "Request".into(), count: h.range(1, 3) as u32, plus: h.range(0, 60) }, Act::Send(Msg::Interested)));
                peer.script.push(step(When::AfterRx { kind: "Request".into(), count: h.range(1, 3) as u32, plus: h.range(60, 120) }, Act::Request(idx, 0, l)));
            }
        }
        // a peer that chokes may still answer what it was asked before (the blocks are on their way)
        if Rng64::sub(seed ^ (j as u64 + 1), "tiling-serve-after-choke").chance(1, 2) {
            peer.answer.serve_after_choke = true;
            if peer.answer.delay_max == 0 {
                peer.answer.delay_max = 40;
            }
        }
        peer.max_accepts = 5;
        p.peers.push(peer);
    }
    good_tracker(&mut p, 1);
    p.deadline_ms = 120_000;
    p.linger_ms = 300;
    p
}

fn small_multi_geometry(r: &mut Rng64, min_p: u64, max_p: u64) -> Geometry {
    let piece_len = match r.below(6) {
        0 => *r.pick(&[16384u64, 20000, 32768, 40000]),
        _ => r.range(16, 3000),
    };
    let mut n = r.range(min_p, max_p);
    while n > min_p && n * piece_len > 260_000 {
        n -= 1;
    }
    let last = r.range(1, piece_len);
    simple_geometry(piece_len, (n - 1) * piece_len + last)
}

pub fn adversary_mix(seed: u64) -> Plan {
    let mut r = Rng64::sub(seed, "adversary-mix");
    let g = small_multi_geometry(&mut r, 2, 25);
    let n = g.pieces();
    let piece_len = g.piece_len;
    let blocks = ((piece_len + 16383) / 16384) as u64;
    let mut p = base_plan("adversary-mix", seed, g);
    let honest = r.range(1, 3) as usize;
    let mut k = 0;
    for _ in 0..honest {
        let mut peer = base_peer(k, n);
        peer.max_accepts = 50;
        peer.net = gen_net(&mut r, false);
        peer.unchoke = Unchoke::OnInterested(r.range(1, 3000));
        peer.answer.delay_max = *r.pick(&[0u64, 5, 50, 300]);
        p.peers.push(peer);
        k += 1;
    }
    for _ in 0..r.range(1, 5) {
        let mut peer = base_peer(k, n);
        peer.essential = false;
        peer.max_accepts = r.range(1, 4) as u32;
        peer.net = gen_net(&mut r, false);
        peer.unchoke = Unchoke::OnInterested(r.range(0, 200));
        peer.answer.delay_max = *r.pick(&[0u64, 0, 5, 50]);
        peer.answer.fifo = r.chance(1, 2);
        match r.below(7) {
            0 | 1 => {
                for _ in 0..r.range(1, 4) {
                    peer.answer.corrupt.push((r.below(n as u64) as u32, r.below(blocks) as u32));
                }
                peer.answer.corrupt_once = r.chance(1, 2);
            }
            2 => peer.answer.dup_pm = *r.pick(&[300u32, 1000]),
            3 => {
                // unrequested / misplaced blocks at random times and right after requests
                for _ in 0..r.range(1, 6) {
                    let idx = r.below(n as u64 + 1) as u32;
                    let begin = *r.pick(&[0u32, 1, 16384, 16383, 7]);
                    let l = *r.pick(&[1usize, 16, 100, 16384]);
                    let m = Msg::Piece { index: idx, begin, block: r.bytes(l) };
                    let when = if r.chance(1, 2) { When::At(r.range(5, 5000)) } else { When::AfterRx { kind: "Request".into(), count: r.range(1, 6) as u32, plus: r.range(0, 3) } };
                    peer.script.push(step(when, Act::Send(m)));
                }
            }
            4 => {
                // right index and offset, wrong length / right length, shifted offset
                peer.answer.withhold.push((r.below(n as u64) as u32, 0));
                let idx = peer.answer.withhold[0].0;
                let l = (piece_len.min(16384)) as usize;
                let data = r.bytes(l.saturating_sub(1).max(1));
                peer.script.push(step(When::AfterRx { kind: "Request".into(), count: r.range(1, 4) as u32, plus: 1 }, Act::Send(Msg::Piece { index: idx, begin: 0, block: data })));
            }
            5 => {
                let m = Msg::Piece { index: 0, begin: 0, block: vec![7u8; 200] }.encode();
                let cut = r.range(1, 150) as usize;
                let c = r.range(1, 5) as u32;
                peer.script.push(step(When::AfterRx { kind: "Request".into(), count: c, plus: 2 }, Act::Raw(m[..cut].to_vec())));
                peer.script.push(step(When::AfterRx { kind: "Request".into(), count: c, plus: 4 }, Act::CloseRst));
            }
            _ => peer.script.push(step(When::AfterTxBlocks { count: r.range(1, 6) as u32, plus: r.range(0, 20) }, if r.chance(1, 2) { Act::CloseFin } else { Act::CloseRst })),
        }
        p.peers.push(peer);
        k += 1;
    }
    if r.chance(1, 5) {
        for _ in 0..r.range(1, 3) {
            p.disk_fail_writes.push(r.below(n as u64 + 2));
        }
    }
    // the disk fills up after a few pieces
    if r.chance(1, 12) {
        p.disk_full_from = Some(r.below(n as u64 + 1));
    }
    // restart after a crash: piece files of an earlier run are still lying around
    if r.chance(1, 5) {
        for _ in 0..r.range(1, 4) {
            p.preexisting.push((r.below(n as u64) as u32, r.below(3) as u8));
        }
    }
    // any peer may repeat its choke state (Unchoke while not choking, Choke while choking) while a
    // piece is in flight
    for (j, peer) in p.peers.iter_mut().enumerate() {
        let mut h = Rng64::sub(seed ^ (j as u64 + 1), "adversary-redundant");
        if h.chance(1, 6) {
            for _ in 0..h.range(1, 3) {
                peer.script.push(step(When::AfterRx { kind: "Request".into(), count: h.range(1, 8) as u32, plus: h.range(0, 400) }, Act::RepeatChokeState));
            }
        }
    }
    let mut names: Vec<String> = p.peers.iter().map(|x| x.name.clone()).collect();
    // a tracker may list the same address more than once
    if r.chance(1, 6) {
        let dup = r.pick(&names).clone();
        names.push(dup.clone());
        if let Some(q) = p.peers.iter_mut().find(|q| q.name == dup) {
            q.max_accepts = q.max_accepts.max(3);
        }
    }
    r.shuffle(&mut names);
    p.tracker.steps.push((r.range(1, 50), TrackerStep::Good { peers: names, malformed: 0, wrong_id_for: vec![] }));
    p.fs_yield_pm = *r.pick(&[0u32, 100, 500]);
    p.deadline_ms = if p.disk_full_from.is_some() { 40_000 } else { 1_200_000 };
    p.linger_ms = 500;
    p
}

fn boundary_requests(r: &mut Rng64, n: usize, piece_len: u64) -> Vec<(u32, u32, u32)> {
    let mut v = Vec::new();
    let pl = piece_len as u32;
    for _ in 0..r.range(1, 8) {
        let idx = match r.below(6) {
            0 => n as u32,
            1 => u32::MAX,
            _ => r.below(n as u64) as u32,
        };
        let (b, l) = match r.below(12) {
            0 => (0, 0),
            1 => (0, 16385),
            2 => (0xFFFF_C001, 16383),
            3 => (0xFFFF_FFFF, 1),
            4 => (0xFFFF_FFF0, 0x20),
            5 => (pl, 1),
            6 => (pl.saturating_sub(1), 2),
            7 => (1, pl.min(16384)),
            8 => (0, u32::MAX),
            _ => {
                let b = r.below(pl as u64) as u32;
                (b, (pl - b).min(16384).max(1))
            }
        };
        v.push((idx, b, l));
    }
    v
}

pub fn leechers(seed: u64) -> Plan {
    let mut r = Rng64::sub(seed, "leechers");
    let g = small_multi_geometry(&mut r, 2, 6);
    let n = g.pieces();
    let piece_len = g.piece_len;
    let mut p = base_plan("leechers", seed, g);
    let mut seeder = base_peer(0, n);
    seeder.answer.delay_max = *r.pick(&[0u64, 0, 20]);
    p.peers.push(seeder);
    let many = r.chance(1, 3);
    // crowd: every leecher is a well-behaved cache prober, so more than ten stay connected and
    // interested and the rotations have to choke somebody
    let crowd = r.chance(2, 3);
    if many && crowd {
        // slow seeder: the download is still running when the dial-in peers arrive
        p.peers[0].answer.delay_min = r.range(300, 1500);
        p.peers[0].answer.delay_max = p.peers[0].answer.delay_min;
    }
    let k = if many { r.range(12, 16) } else { r.range(1, 4) } as usize;
    for j in 1..=k {
        let mut peer = base_peer(j, n);
        peer.essential = false;
        peer.has = vec![false; n];
        // unchoke the client so that its have-announcements are not held back
        peer.unchoke = if r.chance(5, 6) { Unchoke::At(r.range(1, 300)) } else { Unchoke::Never };
        let calm_ = r.chance(1, 2);
        peer.net = gen_net(&mut r, calm_);
        peer.keepalive = Some(50_000);
        peer.accept_delay = r.range(20, 400);
        if !many && r.chance(1, 2) {
            peer.listed = false;
            peer.dial_in = vec![r.range(100, 3000)];
        }
        if r.chance(1, 6) {
            peer.bitfield = BitfieldMode::Omit;
        }
        let t_int = if many && crowd { 0 } else { r.range(1, 300) };
        // now and then a peer that asks without ever declaring interest: it is unchoked after its
        // bitfield like anybody else, and loses the slot at the first rotation that acts
        let undeclared = Rng64::sub(seed ^ j as u64, "leechers-undeclared").chance(1, 6) && !(many && crowd);
        if !undeclared {
            peer.script.push(step(When::At(t_int), Act::Send(Msg::Interested)));
        }
        if many && crowd {
            // partial seeds are interesting to the client, so it accepts more than its eleven
            // outgoing connections and later has more than ten interested peers unchoked
            peer.has[r.usize_below(n)] = true;
            if j % 4 == 0 {
                peer.listed = false;
                peer.dial_in = vec![r.range(30, 400)];
            }
        }
        if (many && crowd) || r.chance(1, 3) {
            // cache prober: only valid requests at a steady pace, and the block served last again
            // whenever the client chokes us
            peer.unchoke = Unchoke::At(r.range(1, 300));
            let period = r.range(300, 2500);
            for q in 0..40u64 {
                peer.script.push(step(When::At(1_000 + q * period), Act::RequestOwned(1)));
            }
            for c in 1..=3u32 {
                peer.script.push(step(When::AfterRx { kind: "Choke".into(), count: c, plus: r.range(0, 5) }, Act::RepeatLast));
                peer.script.push(step(When::AfterRx { kind: "Choke".into(), count: c, plus: r.range(50, 2000) }, Act::RepeatLast));
            }
            p.peers.push(peer);
            continue;
        }
        // valid requests once unchoked
        for u in 1..=3u32 {
            peer.script.push(step(When::AfterRx { kind: "Unchoke".into(), count: u, plus: r.range(1, 100) }, Act::RequestOwned(r.range(1, 4) as u32)));
        }
        // boundary requests at three kinds of moment
        for (i, b, l) in boundary_requests(&mut r, n, piece_len) {
            let when = match r.below(4) {
                0 => When::At(r.range(1, 40_000)),
                1 => When::AfterRx { kind: "Choke".into(), count: r.range(1, 2) as u32, plus: r.range(0, 2) },
                _ => When::AfterRx { kind: "Unchoke".into(), count: r.range(1, 2) as u32, plus: r.range(0, 300) },
            };
            peer.script.push(step(when, Act::Request(i, b, l)));
        }
        // keep asking so that upload rates differ and rotations have something to choke
        for q in 0..r.range(0, 12) {
            peer.script.push(step(When::At(5_000 + q * r.range(500, 4000)), Act::RequestOwned(1)));
        }
        // the block served last, again, right after being choked (cached piece)
        if r.chance(1, 2) {
            for c in 1..=2u32 {
                peer.script.push(step(When::AfterRx { kind: "Choke".into(), count: c, plus: r.range(0, 5) }, Act::RepeatLast));
                peer.script.push(step(When::AfterRx { kind: "Choke".into(), count: c, plus: r.range(100, 3000) }, Act::RepeatLast));
            }
        }
        if r.chance(1, 2) {
            peer.script.push(step(When::AfterRx { kind: "Choke".into(), count: 1, plus: r.range(0, 50) }, Act::RequestOwned(2)));
            let idx = r.below(n as u64) as u32;
            let l = (piece_len as u32).min(16384);
            peer.script.push(step(When::AfterRx { kind: "Unchoke".into(), count: 1, plus: 400 }, Act::Request(idx, 0, l)));
            peer.script.push(step(When::AfterRx { kind: "Choke".into(), count: 1, plus: 1 }, Act::Request(idx, 0, l)));
            peer.script.push(step(When::AfterRx { kind: "Choke".into(), count: 1, plus: 500 }, Act::Request(idx, 0, l)));
        }
        if r.chance(1, 5) {
            peer.script.push(step(When::At(r.range(10_000, 50_000)), Act::Send(Msg::NotInterested)));
        }
        p.peers.push(peer);
    }
    // the client dials candidates from the end of the list: the seeder goes last so that it is
    // always among the first connections
    let mut names: Vec<String> = p.peers.iter().filter(|x| x.listed).map(|x| x.name.clone()).collect();
    names.rotate_left(1);
    p.tracker.steps.push((1, TrackerStep::Good { peers: names, malformed: 0, wrong_id_for: vec![] }));
    // the stored piece cannot be read back now and then (upload path)
    if r.chance(1, 8) {
        for _ in 0..r.range(1, 3) {
            p.disk_fail_reads.push(r.below(12));
        }
    }
    // restart after a crash: stale piece files (torn or garbage) are lying around while the pieces
    // themselves are still being fetched, and the seeder is slow enough for requests to meet them
    let mut h = Rng64::sub(seed, "leechers-stale");
    if h.chance(1, 4) {
        for _ in 0..h.range(1, 3) {
            p.preexisting.push((h.below(n as u64) as u32, 1 + h.below(2) as u8));
        }
        p.peers[0].answer.delay_min = p.peers[0].answer.delay_min.max(h.range(200, 3_000));
        p.peers[0].answer.delay_max = p.peers[0].answer.delay_max.max(p.peers[0].answer.delay_min);
    }
    p.deadline_ms = r.range(35_000, 75_000);
    p.stop_on_done = false;
    p
}

pub fn handshakes(seed: u64) -> Plan {
    let mut r = Rng64::sub(seed, "handshakes");
    let g = small_multi_geometry(&mut r, 2, 5);
    let n = g.pieces();
    let piece_len = g.piece_len;
    let mut p = base_plan("handshakes", seed, g);
    let mut seeder = base_peer(0, n);
    // stay interested so that the client keeps this connection after finishing
    seeder.script.push(step(When::At(1), Act::Send(Msg::Interested)));
    // in some runs pieces keep completing while the odd peers connect
    seeder.answer.delay_min = *r.pick(&[0u64, 0, 300, 1200]);
    seeder.answer.delay_max = seeder.answer.delay_min;
    p.peers.push(seeder);
    let ih_placeholder = [0u8; 20];
    let _ = ih_placeholder;
    let k = r.range(1, 5) as usize;
    let mut wrong_id_for = Vec::new();
    for j in 1..=k {
        let mut peer = base_peer(j, n);
        peer.essential = false;
        peer.has = if r.chance(1, 2) { vec![false; n] } else { (0..n).map(|_| r.chance(1, 2)).collect() };
        peer.unchoke = if r.chance(1, 2) { Unchoke::Never } else { Unchoke::OnInterested(5) };
        let calm_ = r.chance(1, 2);
        peer.net = gen_net(&mut r, calm_);
        peer.keepalive = Some(50_000);
        let incoming = r.chance(3, 5);
        if incoming {
            peer.listed = false;
            peer.dial_in = vec![r.range(50, 4000)];
        } else {
            peer.accept_delay = r.range(1, 3000);
        }
        let kind = r.below(9);
        peer.hs = match kind {
            0 | 1 => Hs::Ok,
            2 => Hs::WrongHash,
            3 => {
                if incoming {
                    Hs::WrongHash
                } else {
                    Hs::WrongId
                }
            }
            4 => Hs::WrongPstr,
            5 | 6 => Hs::Absent,
            7 => Hs::Eager,
            _ => Hs::Ok,
        };
        if kind == 8 && !incoming {
            // the tracker announces another id than the peer really has
            wrong_id_for.push(peer.name.clone());
        }
        // an otherwise ordinary leecher conversation
        let mut t = r.range(1, 200);
        let l = (piece_len as u32).min(16384);
        let pre: Vec<Act> = vec![
            Act::Send(Msg::Bitfield(crate::codec::bitfield_bytes(&peer.has))),
            Act::Send(Msg::Interested),
            Act::Request(r.below(n as u64) as u32, 0, l),
            Act::RequestOwned(2),
            Act::Send(Msg::Have(r.below(n as u64) as u32)),
            Act::Send(Msg::KeepAlive),
        ];
        if peer.hs == Hs::Absent {
            // frames without (or before) a handshake
            peer.bitfield = BitfieldMode::Omit;
            for a in pre.iter().take(r.range(1, 6) as usize) {
                peer.script.push(step(When::At(t), a.clone()));
                t += r.range(0, 300);
            }
            for q in 0..r.range(0, 4) {
                peer.script.push(step(When::At(t + 200 * q), Act::Request(r.below(n as u64) as u32, 0, l)));
            }
            if kind == 6 {
                // late but correct handshake, then more requests
                t += r.range(100, 3000);
                peer.script.push(step(When::At(t), Act::Send(Msg::Handshake { pstr: crate::codec::PSTR.to_vec(), reserved: vec![0; 8], info_hash: vec![], peer_id: peer.id.clone() })));
                peer.script.push(step(When::At(t + 50), Act::Send(Msg::Interested)));
                peer.script.push(step(When::At(t + 500), Act::RequestOwned(2)));
            }
        } else {
            peer.script.push(step(When::At(t), Act::Send(Msg::Interested)));
            peer.script.push(step(When::AfterRx { kind: "Unchoke".into(), count: 1, plus: r.range(1, 100) }, Act::RequestOwned(2)));
            for q in 0..r.range(0, 3) {
                peer.script.push(step(When::At(t + 300 + 400 * q), Act::Request(r.below(n as u64) as u32, 0, l)));
            }
            if r.chance(1, 4) {
                // a second handshake later: same, or for another torrent
                let other = r.chance(1, 2);
                let mut id = peer.id.clone();
                if !other && r.chance(1, 2) {
                    id[3] ^= 1;
                }
                peer.script.push(step(
                    When::At(r.range(500, 6000)),
                    Act::Send(Msg::Handshake { pstr: crate::codec::PSTR.to_vec(), reserved: vec![0; 8], info_hash: if other { vec![1] } else { vec![] }, peer_id: id }),
                ));
                peer.script.push(step(When::At(7000), Act::RequestOwned(2)));
            }
        }
        p.peers.push(peer);
    }
    let names: Vec<String> = p.peers.iter().filter(|x| x.listed).map(|x| x.name.clone()).collect();
    p.tracker.steps.push((1, TrackerStep::Good { peers: names, malformed: 0, wrong_id_for }));
    p.deadline_ms = r.range(10_000, 80_000);
    p.stop_on_done = false;
    p
}

pub fn announce(seed: u64) -> Plan {
    let mut r = Rng64::sub(seed, "announce");
    let g = small_multi_geometry(&mut r, 3, 25);
    let n = g.pieces();
    let mut p = base_plan("announce", seed, g);
    {
        let mut h = Rng64::sub(seed, "announce-stale");
        if h.chance(1, 8) {
            for _ in 0..h.range(1, 3) {
                p.preexisting.push((h.below(n as u64) as u32, 1 + h.below(2) as u8));
            }
        }
    }
    let ks = r.range(2, 6) as usize;
    let hs = if r.chance(1, 2) { vec![vec![true; n]; ks] } else { split_has(&mut r, n, ks) };
    let mut k = 0;
    for h in hs {
        let mut peer = base_peer(k, n);
        peer.has = h;
        peer.max_accepts = 20;
        let calm_ = r.chance(1, 2);
        peer.net = gen_net(&mut r, calm_);
        peer.unchoke = Unchoke::OnInterested(r.range(1, 800));
        peer.answer.delay_min = *r.pick(&[0u64, 2, 20]);
        peer.answer.delay_max = peer.answer.delay_min + *r.pick(&[0u64, 10, 100, 400]);
        // stay around after the download: interested in us
        if r.chance(1, 2) {
            peer.script.push(step(When::At(r.range(1, 2000)), Act::Send(Msg::Interested)));
        }
        p.peers.push(peer);
        k += 1;
    }
    // observed peers
    for _ in 0..r.range(1, 6) {
        let mut peer = base_peer(k, n);
        peer.essential = false;
        peer.has = if r.chance(2, 3) { vec![false; n] } else { (0..n).map(|_| r.chance(1, 4)).collect() };
        let calm_ = r.chance(1, 2);
        peer.net = gen_net(&mut r, calm_);
        peer.unchoke = Unchoke::Never;
        peer.strict_choke = true;
        peer.keepalive = Some(60_000);
        if r.chance(2, 3) {
            peer.listed = false;
            peer.dial_in = vec![r.range(0, 4000)];
        } else {
            peer.accept_delay = r.range(1, 3000);
        }
        // choke / unchoke the client at random times
        let mut t = r.range(0, 1500);
        for _ in 0..r.range(0, 5) {
            peer.script.push(step(When::At(t), Act::Unchoke));
            t += r.range(1, 1500);
            if r.chance(2, 3) {
                peer.script.push(step(When::At(t), Act::Choke));
                t += r.range(1, 1500);
            }
        }
        if r.chance(1, 2) {
            peer.script.push(step(When::At(r.range(1, 3000)), Act::Send(Msg::Interested)));
        }
        if r.chance(1, 6) {
            peer.script.push(step(When::At(r.range(0, 3000)), Act::Partition(r.range(100, 2500))));
        }
        p.peers.push(peer);
        k += 1;
    }
    let mut names: Vec<String> = p.peers.iter().filter(|x| x.listed).map(|x| x.name.clone()).collect();
    r.shuffle(&mut names);
    p.tracker.steps.push((1, TrackerStep::Good { peers: names, malformed: 0, wrong_id_for: vec![] }));
    // now and then a verified piece cannot be written (it must then not be announced)
    if r.chance(1, 6) {
        for _ in 0..r.range(1, 3) {
            p.disk_fail_writes.push(r.below(n as u64));
        }
    }
    p.deadline_ms = 60_000;
    p.linger_ms = 2_500;
    p
}

/// Stalled reader: an observed peer stops draining what the client writes while many pieces
/// complete on other connections (the task's broadcast queue holds 32 commands).
pub fn stall(seed: u64) -> Plan {
    let mut r = Rng64::sub(seed, "stall");
    let piece_len = r.range(32, 400);
    let n_p = r.range(20, 70);
    let g = simple_geometry(piece_len, n_p * piece_len - r.range(0, piece_len - 1));
    let n = g.pieces();
    let mut p = base_plan("stall", seed, g);
    for j in 0..r.range(1, 3) as usize {
        let mut peer = base_peer(j, n);
        peer.max_accepts = 5;
        peer.unchoke = Unchoke::OnInterested(r.range(1, 50));
        peer.answer.delay_min = *r.pick(&[5u64, 20, 60]);
        peer.answer.delay_max = peer.answer.delay_min + r.range(0, 40);
        // stays around: interested in us
        peer.script.push(step(When::At(0), Act::Send(Msg::Interested)));
        p.peers.push(peer);
    }
    let k0 = p.peers.len();
    for j in 0..r.range(1, 3) as usize {
        let mut peer = base_peer(k0 + j, n);
        peer.essential = false;
        peer.has = vec![false; n];
        peer.unchoke = Unchoke::At(r.range(1, 30));
        peer.keepalive = Some(60_000);
        if r.chance(1, 2) {
            peer.listed = false;
            peer.dial_in = vec![r.range(0, 100)];
        }
        peer.script.push(step(When::At(0), Act::Send(Msg::Interested)));
        let t = r.range(20, 1500);
        peer.script.push(step(When::At(t), Act::Stall(r.range(200, 8000))));
        if r.chance(1, 3) {
            peer.script.push(step(When::At(t + r.range(9000, 12_000)), Act::Stall(r.range(200, 3000))));
        }
        p.peers.push(peer);
    }
    let mut names: Vec<String> = p.peers.iter().filter(|x| x.listed).map(|x| x.name.clone()).collect();
    names.reverse();
    p.tracker.steps.push((1, TrackerStep::Good { peers: names, malformed: 0, wrong_id_for: vec![] }));
    p.deadline_ms = 60_000;
    p.linger_ms = 12_000;
    p
}

// ---------------------------------------------------------------------------------------------
// manager-level profiles

/// Directed history for the reservation bookkeeping: A and B have only piece x, C has everything
/// and is fast, D..F advertise everything but x and never unchoke (so x is the rarest piece).
/// A is asked for x, chokes, B is asked for x and is very slow; then A leaves (or repeats its
/// Choke). x must stay with B: C may only take it in end game.
fn bookkeeping_handover(seed: u64) -> Plan {
    let mut r = Rng64::sub(seed, "bookkeeping-handover");
    let piece_len = r.range(600, 3000);
    let n_p = r.range(22, 30);
    let g = simple_geometry(piece_len, n_p * piece_len - r.range(0, piece_len - 1));
    let n = g.pieces();
    let mut p = base_plan("bookkeeping", seed, g);
    let x = r.usize_below(n);
    let only_x: Vec<bool> = (0..n).map(|i| i == x).collect();
    let all_but_x: Vec<bool> = (0..n).map(|i| i != x).collect();
    let t_choke = r.range(50, 300);
    let mut a = base_peer(0, n);
    a.essential = false;
    a.has = only_x.clone();
    a.unchoke = Unchoke::OnInterested(r.range(1, 50));
    a.answer.delay_min = 60_000;
    a.answer.delay_max = 60_000;
    a.strict_choke = true;
    a.script.push(step(When::AfterRx { kind: "Request".into(), count: 1, plus: t_choke }, Act::Choke));
    let t_leave = t_choke + r.range(700, 1_500);
    let leave = match r.below(3) {
        0 => Act::CloseFin,
        1 => Act::CloseRst,
        _ => Act::RepeatChokeState,
    };
    a.script.push(step(When::AfterRx { kind: "Request".into(), count: 1, plus: t_leave }, leave));
    p.peers.push(a);
    let mut b = base_peer(1, n);
    b.essential = false;
    b.has = only_x;
    // unchokes once A has choked
    let t_b = r.range(450, 650);
    b.unchoke = Unchoke::At(t_b);
    b.answer.delay_min = r.range(8_000, 20_000);
    b.answer.delay_max = b.answer.delay_min;
    p.peers.push(b);
    // C is busy with the other pieces and learns of x while B sits on it
    let mut c = base_peer(2, n);
    c.essential = false;
    c.has = all_but_x.clone();
    c.unchoke = Unchoke::OnInterested(r.range(1, 50));
    c.answer.delay_min = r.range(300, 600);
    c.answer.delay_max = c.answer.delay_min;
    c.script.push(step(When::At(t_b + r.range(60, 120)), Act::Gain(x as u32)));
    p.peers.push(c);
    for j in 3..6 {
        let mut d = base_peer(j, n);
        d.essential = false;
        d.has = all_but_x.clone();
        d.unchoke = Unchoke::Never;
        p.peers.push(d);
    }
    let mut names: Vec<String> = p.peers.iter().map(|x| x.name.clone()).collect();
    r.shuffle(&mut names);
    p.tracker.steps.push((1, TrackerStep::Good { peers: names, malformed: 0, wrong_id_for: vec![] }));
    p.deadline_ms = 12_000;
    p.linger_ms = 500;
    p.stop_on_done = false;
    p
}

pub fn bookkeeping(seed: u64) -> Plan {
    if Rng64::sub(seed, "bookkeeping-variant").chance(1, 10) {
        return bookkeeping_handover(seed);
    }
    let mut r = Rng64::sub(seed, "bookkeeping");
    let (lo, hi) = if r.chance(1, 2) { (3, 8) } else { (11, 22) };
    let g = small_multi_geometry(&mut r, lo, hi);
    let n = g.pieces();
    let mut p = base_plan("bookkeeping", seed, g);
    let k = r.range(2, 8) as usize;
    for j in 0..k {
        let mut peer = base_peer(j, n);
        peer.essential = false;
        peer.max_accepts = r.range(1, 3) as u32;
        peer.has = match r.below(4) {
            0 => vec![true; n],
            // sparse: one or two pieces only (nothing else to choose while its piece is in flight)
            1 => (0..n).map(|_| r.chance(1, 8)).collect(),
            _ => (0..n).map(|_| r.chance(1, 2)).collect(),
        };
        if peer.has.iter().all(|h| !*h) {
            peer.has[r.usize_below(n)] = true;
        }
        if r.chance(1, 4) {
            peer.bitfield = BitfieldMode::AsHaves;
        }
        let calm_ = r.chance(1, 3);
        peer.net = gen_net(&mut r, calm_);
        peer.unchoke = match r.below(4) {
            0 => Unchoke::At(r.range(1, 2000)),
            1 => Unchoke::Never,
            _ => Unchoke::OnInterested(r.range(1, 500)),
        };
        peer.answer.delay_min = *r.pick(&[0u64, 0, 10]);
        peer.answer.delay_max = peer.answer.delay_min + *r.pick(&[0u64, 20, 300, 1500]);
        peer.answer.fifo = r.chance(1, 2);
        peer.answer.serve_after_choke = r.chance(1, 3);
        peer.answer.dup_pm = *r.pick(&[0u32, 0, 200]);
        if r.chance(1, 6) {
            peer.listed = r.chance(1, 2);
            peer.dial_in = vec![r.range(0, 5000)];
            // cross-connect: listed and dialling in from its listening address
            if peer.listed && r.chance(1, 2) {
                peer.dial_in_same_addr = true;
                peer.max_accepts = peer.max_accepts.max(2);
            }
        }
        // while a piece is in flight: the bitfield again, then a new piece announced
        if r.chance(1, 4) {
            let c = r.range(1, 3) as u32;
            let d = r.range(0, 50);
            peer.script.push(step(When::AfterRx { kind: "Request".into(), count: c, plus: d }, Act::Send(Msg::Bitfield(crate::codec::bitfield_bytes(&peer.has)))));
            peer.script.push(step(When::AfterRx { kind: "Request".into(), count: c, plus: d + r.range(1, 200) }, Act::Gain(r.below(n as u64) as u32)));
            peer.answer.delay_min += 400;
            peer.answer.delay_max += 400;
        }
        // random walk
        let mut t = r.range(1, 800);
        for _ in 0..r.range(2, 14) {
            let act = match r.below(12) {
                0..=2 => Act::Choke,
                3..=5 => Act::Unchoke,
                6 => Act::Send(Msg::Interested),
                7 => Act::Send(Msg::NotInterested),
                8 | 9 => Act::Gain(r.below(n as u64) as u32),
                10 if r.chance(1, 3) => Act::Send(Msg::Have(n as u32)),
                10 => Act::Send(Msg::Bitfield(crate::codec::bitfield_bytes(&peer.has))),
                _ => Act::Send(Msg::KeepAlive),
            };
            let when = if r.chance(1, 3) {
                When::AfterRx { kind: "Request".into(), count: r.range(1, 10) as u32, plus: r.range(0, 400) }
            } else {
                When::At(t)
            };
            peer.script.push(step(when, act));
            t += *r.pick(&[0u64, 1, 5, 50, 300, 1500]);
        }
        match r.below(8) {
            0 | 1 => peer.script.push(step(When::At(t + r.range(0, 5000)), if r.chance(1, 2) { Act::CloseFin } else { Act::CloseRst })),
            // leaves in the middle of the walk, possibly while holding an assignment
            2 => peer.script.push(step(When::At(r.range(50, t.max(51))), if r.chance(1, 2) { Act::CloseFin } else { Act::CloseRst })),
            3 => peer.script.push(step(
                When::AfterRx { kind: "Request".into(), count: r.range(1, 8) as u32, plus: r.range(0, 100) },
                if r.chance(1, 2) { Act::CloseFin } else { Act::CloseRst },
            )),
            _ => {}
        }
        // and may be dialled again after a re-announce
        if r.chance(1, 3) {
            peer.max_accepts = 4;
        }
        p.peers.push(peer);
    }
    let mut names: Vec<String> = p.peers.iter().filter(|x| x.listed).map(|x| x.name.clone()).collect();
    r.shuffle(&mut names);
    p.tracker.steps.push((1, TrackerStep::Good { peers: names, malformed: 0, wrong_id_for: vec![] }));
    p.deadline_ms = 40_000;
    p.linger_ms = 500;
    p
}

pub fn choking(seed: u64) -> Plan {
    let mut r = Rng64::sub(seed, "choking");
    let piece_len = *r.pick(&[2000u64, 16384, 20000]);
    // half of the long-crowd runs keep the client downloading for the whole run (a peer that
    // says NotInterested is dropped once the client needs nothing from it)
    let long_download = r.chance(1, 2);
    let n_p = if long_download { r.range(80, 140) } else { r.range(20, 40) };
    let g = simple_geometry(piece_len, n_p * piece_len - r.range(0, piece_len - 1));
    let n = g.pieces();
    let mut p = base_plan("choking", seed, g);
    // long crowd: more than eleven peers, all interested from the start and for good, differing
    // rates, long enough for two optimistic draws (30 s and 60 s)
    let crowd = r.chance(1, 3);
    let listed = if crowd { r.range(11, 14) } else { r.range(8, 16) } as usize;
    let dialin = if crowd { r.range(2, 5) } else { r.range(0, 6) } as usize;
    let tied = !crowd && r.chance(1, 3);
    for j in 0..listed + dialin {
        let mut peer = base_peer(j, n);
        peer.essential = false;
        let seeder = j < 2 || r.chance(1, 3);
        peer.has = if seeder { vec![true; n] } else { (0..n).map(|_| r.chance(1, 5)).collect() };
        peer.accept_delay = r.range(1, 60);
        peer.net.lat_min = 1;
        peer.net.lat_max = *r.pick(&[1u64, 1, 5]);
        // leechers unchoke the client too, otherwise its have-announcements are held back and
        // they never learn what they could request
        peer.unchoke = if seeder { Unchoke::OnInterested(r.range(1, 300)) } else { Unchoke::At(r.range(1, 500)) };
        // different speeds (tied for some runs)
        let d = if tied { 1500 } else if long_download { *r.pick(&[2000u64, 3000, 5000, 8000]) } else { *r.pick(&[500u64, 1000, 2000, 3000, 5000]) };
        peer.answer.delay_min = d;
        peer.answer.delay_max = d + if tied { 0 } else { r.range(0, 200) };
        peer.keepalive = Some(60_000);
        if j >= listed {
            peer.listed = false;
            peer.dial_in = vec![if crowd { r.range(50, 3000) } else { r.range(0, 20_000) }];
        }
        if crowd {
            // partial seeds stay interesting to the client (it accepts incoming connections only
            // while fewer than four of its peers are uninteresting)
            if !seeder {
                peer.has = (0..n).map(|_| r.chance(1, 2)).collect();
            }
            peer.script.push(step(When::At(0), Act::Send(Msg::Interested)));
            // a few lose interest after the first optimistic draw and regain it after the second
            if r.chance(1, 4) {
                peer.script.push(step(When::At(r.range(31_000, 58_000)), Act::Send(Msg::NotInterested)));
                peer.script.push(step(When::At(r.range(61_000, 88_000)), Act::Send(Msg::Interested)));
            }
            let period = *r.pick(&[400u64, 900, 1700, 3100, 5300]);
            for q in 0..(95_000 / period) {
                peer.script.push(step(When::At(2000 + q * period), Act::RequestOwned(1)));
            }
            p.peers.push(peer);
            continue;
        }
        // a bitfield sent again later (the client accepts it at any time)
        if r.chance(1, 6) {
            peer.script.push(step(When::At(r.range(1_000, 60_000)), Act::Send(Msg::Bitfield(crate::codec::bitfield_bytes(&peer.has)))));
        }
        // interest toggling and requests
        // most peers declare interest right after the handshake: a peer that is not interested
        // when the client has nothing more to fetch from it is dropped by the client
        let mut t = if r.chance(3, 4) { 0 } else { r.range(1, 3000) };
        if r.chance(9, 10) {
            peer.script.push(step(When::At(t), Act::Send(Msg::Interested)));
            t += 30_000;
            for _ in 0..r.range(0, 2) {
                t += r.range(2000, 25_000);
                peer.script.push(step(When::At(t), Act::Send(Msg::NotInterested)));
                t += r.range(100, 15_000);
                peer.script.push(step(When::At(t), Act::Send(Msg::Interested)));
            }
        }
        // a few leechers stop reading for a while (the client's writes to them block)
        if !seeder && r.chance(1, 6) {
            peer.script.push(step(When::At(r.range(5_000, 40_000)), Act::Stall(r.range(3_000, 45_000))));
        }
        let period = if tied { 1000 } else { *r.pick(&[300u64, 700, 1500, 4000]) };
        for q in 0..r.range(0, 40) {
            peer.script.push(step(When::At(3000 + q * period), Act::RequestOwned(1)));
        }
        p.peers.push(peer);
    }
    // a peer that never declares interest and keeps re-sending its bitfield, in bursts around the
    // instants of the 10 s rotation: the rotation chokes it (no interest) while a bitfield of its
    // is waiting for the manager, and that bitfield earns it a free slot again
    if Rng64::sub(seed, "choking-bitfield-repeater").chance(1, 3) {
        let mut h = Rng64::sub(seed, "choking-bitfield-repeater-plan");
        if let Some(peer) = p.peers.iter_mut().find(|x| x.listed && x.has.iter().any(|b| *b) && x.dial_in.is_empty()) {
            peer.script.retain(|s| !matches!(s.act, Act::Send(Msg::Interested) | Act::Send(Msg::NotInterested) | Act::RequestOwned(_) | Act::Stall(_)));
            peer.net = NetPlan::default();
            peer.accept_delay = 1;
            let bf = crate::codec::bitfield_bytes(&peer.has);
            for k in 2..=9u64 {
                let from = h.range(10, 25);
                for d in 0..(from + 12) {
                    let t = (10_000 * k + d).saturating_sub(from);
                    peer.script.push(step(When::At(t), Act::Send(Msg::Bitfield(bf.clone()))));
                }
            }
        }
    }
    let mut names: Vec<String> = p.peers.iter().filter(|x| x.listed).map(|x| x.name.clone()).collect();
    r.shuffle(&mut names);
    p.tracker.steps.push((1, TrackerStep::Good { peers: names, malformed: 0, wrong_id_for: vec![] }));
    p.deadline_ms = if crowd { r.range(61_000, 125_000) } else { r.range(31_000, 91_000) };
    p.stop_on_done = false;
    p
}

// ---------------------------------------------------------------------------------------------
// tracker and timer profiles

pub fn tracker_faults(seed: u64) -> Plan {
    let mut r = Rng64::sub(seed, "tracker-faults");
    // (a short last piece in half of the runs: what is left is then not a multiple of anything)
    let short = Rng64::sub(seed, "tracker-short-last").chance(1, 2);
    let g = simple_geometry(64, 64 * r.range(1, 4) - if short { Rng64::sub(seed, "tracker-short-by").range(1, 63) } else { 0 });
    let n = g.pieces();
    let mut p = base_plan("tracker-faults", seed, g);
    let k = r.range(1, 6) as usize;
    for j in 0..k {
        let mut peer = base_peer(j, n);
        peer.max_accepts = 10;
        peer.unchoke = Unchoke::OnInterested(r.range(1, 500));
        // keep the session from finishing at once: slow answers
        peer.answer.delay_min = r.range(0, 3000);
        peer.answer.delay_max = peer.answer.delay_min;
        if r.chance(1, 6) {
            peer.accept = Accept::Refuse;
        }
        // peer ids are arbitrary bytes, not text
        if r.chance(1, 3) {
            peer.id = r.bytes(20);
            if r.chance(1, 2) {
                peer.id[r.usize_below(20)] = *r.pick(&[0x80u8, 0xFF, 0xC3, 0x00, 0xE2]);
            }
        }
        p.peers.push(peer);
    }
    let failures = match r.below(8) {
        0 => 0,
        1 | 2 => 1,
        3 | 4 => r.range(2, 10),
        5 => r.range(10, 40),
        _ => r.range(60, 80),
    };
    let mut total_ms = 0u64;
    for _ in 0..failures {
        let lat = *r.pick(&[0u64, 1, 50, 300, 300, 2000, 5000]);
        let stepk = match r.below(8) {
            0 | 1 => TrackerStep::Refused,
            2 => TrackerStep::Http(*r.pick(&[400u16, 404, 500, 503])),
            3 => {
                let l = r.range(0, 60) as usize;
                TrackerStep::Garbage(r.bytes(l))
            }
            4 => TrackerStep::Garbage(
                r.pick(&[
                    &b"d8:intervali1800e5:peersld2:ip9:10.0.0.1"[..],
                    // declared lengths/numbers far beyond the body (>= 2^63: never allocatable)
                    &b"d8:intervali1800e5:peers18446744073709551615:xe"[..],
                    &b"d8:intervali1800e5:peers9223372036854775808:"[..],
                    &b"d14:failure reason9223372036854775809:ae"[..],
                    &b"d8:intervali99999999999999999999999e5:peerslee"[..],
                    &b"d8:intervali-9223372036854775809e5:peerslee"[..],
                    &b"99999999999999999999999999:"[..],
                ])
                .to_vec(),
            ),
            5 => {
                if r.chance(1, 2) {
                    TrackerStep::Failure(
                        r.pick(&[
                            "torrent not registered",
                            // long, with multi-byte characters at many byte offsets
                            "Zugriff verweigert: der Torrent ist auf diesem Tracker nicht (mehr) registriert \u{2014} bitte später erneut versuchen, größere Störung",
                            "aaaaaaaaaaaaaaaaaaaaaaaaaaaaaaaaaaaaaaaaaaaaaaaaaaaaaaaaaaaaaaaaaé\u{20AC}é\u{20AC}é\u{20AC}é\u{20AC}é\u{20AC} \u{1F6AB} torrent inconnu",
                            "\u{1F6AB}\u{1F6AB}\u{1F6AB}\u{1F6AB}\u{1F6AB}\u{1F6AB}\u{1F6AB}\u{1F6AB}\u{1F6AB}\u{1F6AB}\u{1F6AB}\u{1F6AB}\u{1F6AB}\u{1F6AB}\u{1F6AB}\u{1F6AB}\u{1F6AB}\u{1F6AB}é\u{1F6AB}\u{1F6AB}",
                        ])
                        .to_string(),
                    )
                } else {
                    TrackerStep::FailureWithPeers("overloaded, retry later".into())
                }
            }
            6 => TrackerStep::NoPeers,
            _ => TrackerStep::Garbage(b"le".to_vec()),
        };
        total_ms += lat + 1000;
        p.tracker.steps.push((lat, stepk));
    }
    let names: Vec<String> = p.peers.iter().map(|x| x.name.clone()).collect();
    // a well-formed reply that lists nobody usable (empty, or malformed entries only), then more
    // failures: the good reply proper comes later, and only a client that asks again gets it
    let mut visit_after: Option<u64> = None;
    {
        let mut h = Rng64::sub(seed, "tracker-empty-reply");
        if h.chance(1, 8) {
            p.tracker.steps.push((1, TrackerStep::Good { peers: vec![], malformed: h.range(0, 3) as u32, wrong_id_for: vec![] }));
            total_ms += 1;
            visit_after = Some(total_ms + h.range(100, 2_000));
            for _ in 0..h.range(0, 4) {
                p.tracker.steps.push((h.range(0, 300), if h.chance(1, 2) { TrackerStep::Refused } else { TrackerStep::Http(503) }));
                total_ms += 1_300;
            }
        }
    }
    let lat = *r.pick(&[1u64, 100, 1000]);
    total_ms += lat;
    let warn = if Rng64::sub(seed, "tracker-warning").chance(1, 6) { vec!["#warning".to_string()] } else { vec![] };
    p.tracker.steps.push((lat, TrackerStep::Good { peers: names.clone(), malformed: r.range(0, 7) as u32, wrong_id_for: warn }));
    // flapping tracker: after the first good reply it fails again for a while (matters when the
    // client has to re-announce, possibly from several announce tasks at once)
    let flapping = r.chance(1, 3);
    for _ in 0..(if flapping { r.range(1, 3) } else { 0 }) {
        for _ in 0..r.range(1, 70) {
            let lat = *r.pick(&[0u64, 1, 50, 300]);
            let stepk = match r.below(4) {
                0 => TrackerStep::Refused,
                1 => TrackerStep::Http(503),
                2 => TrackerStep::Failure("try later".into()),
                _ => TrackerStep::Garbage(b"x".to_vec()),
            };
            total_ms += lat + 1000;
            p.tracker.steps.push((lat, stepk));
        }
        p.tracker.steps.push((1, TrackerStep::Good { peers: names.clone(), malformed: 0, wrong_id_for: vec![] }));
    }
    // an honest peer dials in somewhere inside the failure run
    let mut d = base_peer(k, n);
    d.listed = false;
    d.has = vec![false; n];
    d.unchoke = Unchoke::Never;
    d.dial_in = vec![r.range(0, total_ms.max(1))];
    if r.chance(1, 2) {
        d.dial_in.push(r.range(0, total_ms.max(1)));
    }
    d.script.push(step(When::At(5), Act::Send(Msg::Interested)));
    // sometimes it is a seeder: the download then completes (and the files are written) while the
    // tracker is still failing, and its second visit must still be answered
    if r.chance(1, 3) {
        d.has = vec![true; n];
        d.unchoke = Unchoke::OnInterested(r.range(1, 200));
        if d.dial_in.len() < 2 {
            d.dial_in.push(d.dial_in[0] + r.range(3_000, 20_000));
        }
    }
    p.peers.push(d);
    // the visitor that makes the client ask again after the empty reply: it connects, finds
    // nothing of interest, and leaves
    if let Some(t) = visit_after {
        let mut v = base_peer(k + 200, n);
        v.listed = false;
        v.essential = false;
        v.has = vec![false; n];
        v.unchoke = Unchoke::Never;
        v.dial_in = vec![t];
        v.script.push(step(When::At(300), Act::CloseFin));
        p.peers.push(v);
        total_ms += 125_000;
    }
    // a crowd of seeders finds the client during the outage: by the time the tracker answers,
    // every connection slot is taken (they never unchoke, so the client stays interested)
    if failures >= 2 && r.chance(1, 8) {
        // (sometimes more of them than the client's command channel holds)
        let m = if r.chance(1, 5) { r.range(30, 80) } else { r.range(9, 16) } as usize;
        let mut t = r.range(0, 300);
        for j in 0..m {
            let mut c = base_peer(k + 1 + j, n);
            c.listed = false;
            c.essential = false;
            c.unchoke = Unchoke::Never;
            c.dial_in = vec![t];
            t += r.range(20, (total_ms / (m as u64 + 1)).max(40));
            p.peers.push(c);
        }
    }
    // partial re-announce: all but the peer listed last leave; the next good reply lists a peer the
    // client is still connected to together with the ones it has to dial again
    let partial = k >= 2 && !flapping && Rng64::sub(seed, "tracker-partial-leave").chance(1, 6);
    if partial {
        let mut h = Rng64::sub(seed, "tracker-partial-leave-plan");
        for peer in p.peers.iter_mut().take(k - 1) {
            peer.max_accepts = 10;
            peer.script.push(step(When::At(h.range(100, 3000)), Act::CloseFin));
        }
        p.peers[k - 1].accept = Accept::Accept;
        p.peers[k - 1].unchoke = Unchoke::Never;
        total_ms += 4_000;
    }
    // re-announce: every listed peer leaves, the client has to ask the tracker again
    if !partial && (flapping || r.chance(1, 4)) {
        // either nothing was downloaded when they go, or each of them served a block or two
        let served = Rng64::sub(seed, "tracker-leave-after-serving").chance(1, 2);
        for (j, peer) in p.peers.iter_mut().take(k).enumerate() {
            if served {
                let mut h = Rng64::sub(seed ^ (j as u64 + 1), "tracker-leave-after-serving-plan");
                peer.answer.delay_min = h.range(0, 40);
                peer.answer.delay_max = peer.answer.delay_min;
                peer.script.push(step(When::AfterTxBlocks { count: h.range(1, 2) as u32, plus: h.range(1, 30) }, Act::CloseFin));
                peer.script.push(step(When::At(h.range(2_000, 4_000)), Act::CloseFin));
            } else {
                peer.unchoke = Unchoke::Never;
                peer.script.push(step(When::At(r.range(100, 3000)), Act::CloseFin));
            }
        }
    }
    p.deadline_ms = total_ms + 14_000;
    p.stop_on_done = false;
    p
}

/// Silence on the upload side: a fast seeder gives the client everything within seconds; leechers
/// (partial seeds at first, so that the client lets more than eleven of them in) fetch blocks from
/// it. Either one or two of them fetch a single block and fall silent while unchoked, or ten stay
/// busy and an eleventh, interested and silent, keeps getting the optimistic unchoke.
fn keepalive_upload(seed: u64) -> Plan {
    let mut r = Rng64::sub(seed, "keepalive-upload");
    let n_p = r.range(10, 14);
    let g = simple_geometry(64, 64 * n_p - r.range(0, 63));
    let n = g.pieces();
    let mut p = base_plan("keepalive", seed, g);
    let mut s = base_peer(0, n);
    s.unchoke = Unchoke::OnInterested(r.range(1, 50));
    s.answer.delay_min = r.range(50, 150);
    s.answer.delay_max = s.answer.delay_min;
    s.keepalive = Some(50_000);
    s.script.push(step(When::At(0), Act::Send(Msg::Interested)));
    // it keeps talking, so that it is not what gets dropped
    let mut t = 60_000;
    while t < 600_000 {
        s.script.push(step(When::At(t), Act::Send(Msg::Interested)));
        t += r.range(60_000, 110_000);
    }
    p.peers.push(s);
    let crowd = r.chance(1, 2);
    let live = if crowd { 10 } else { 0 };
    let quiet = if crowd { 1 } else { r.range(1, 2) as usize };
    for j in 0..live + quiet {
        let mut l = base_peer(1 + j, n);
        l.essential = false;
        l.has = vec![false; n];
        l.has[r.usize_below(n)] = true;
        // it unchokes the client, otherwise the client's have-announcements are held back and it
        // never learns what it could ask for
        l.unchoke = Unchoke::At(r.range(1, 300));
        l.keepalive = if r.chance(1, 2) { Some(r.range(20_000, 110_000)) } else { None };
        if j % 4 == 3 {
            l.listed = false;
            l.dial_in = vec![r.range(30, 250)];
        }
        // interested from the first moment (a peer that is drained and not interested is dropped)
        l.script.push(step(When::At(0), Act::Send(Msg::Interested)));
        l.max_accepts = 3;
        if j < live {
            let period = r.range(3_000, 8_000);
            let mut t = r.range(3_000, 6_000);
            while t < 600_000 {
                l.script.push(step(When::At(t), Act::RequestOwned(1)));
                t += period;
            }
        } else if !crowd {
            // one block, then nothing more
            l.script.push(step(When::AfterRx { kind: "Unchoke".into(), count: 1, plus: r.range(3_000, 6_000) }, Act::RequestOwned(1)));
        }
        p.peers.push(l);
    }
    let mut names: Vec<String> = p.peers.iter().filter(|x| x.listed).map(|x| x.name.clone()).collect();
    names.rotate_left(1);
    p.tracker.steps.push((1, TrackerStep::Good { peers: names, malformed: 0, wrong_id_for: vec![] }));
    p.deadline_ms = r.range(420_000, 520_000);
    p.stop_on_done = false;
    p
}

pub fn keepalive(seed: u64) -> Plan {
    if Rng64::sub(seed, "keepalive-variant").chance(1, 4) {
        return keepalive_upload(seed);
    }
    let mut r = Rng64::sub(seed, "keepalive");
    let g = simple_geometry(64, 64 * r.range(3, 12));
    let n = g.pieces();
    let mut p = base_plan("keepalive", seed, g);
    let k = r.range(1, 4) as usize;
    for j in 0..k {
        let mut peer = base_peer(j, n);
        peer.essential = false;
        peer.has = vec![false; n];
        peer.unchoke = Unchoke::Never;
        peer.keepalive = None;
        if r.chance(1, 2) {
            peer.listed = false;
            peer.dial_in = vec![r.range(0, 100_000)];
        } else {
            peer.accept_delay = r.range(1, 5000);
        }
        // every kind of message other than a keep-alive counts as life (NotInterested is left out
        // only because the client answers it by dropping an uninteresting peer)
        let only = r.below(3) == 0;
        let one_kind = r.below(8);
        let real = move |r: &mut Rng64| -> Act {
            match if only { one_kind } else { r.below(8) } {
                0 => Act::Send(Msg::Interested),
                1 => Act::Gain(r.below(n as u64) as u32),
                2 => Act::Send(Msg::Bitfield(vec![0u8; (n + 7) / 8])),
                3 => Act::Send(Msg::Choke),
                4 => Act::Send(Msg::Cancel { index: r.below(n as u64) as u32, begin: 0, len: 16 }),
                5 => Act::Send(Msg::Request { index: r.below(n as u64) as u32, begin: 0, len: 16 }),
                6 => Act::Send(Msg::Unchoke),
                _ => Act::Send(Msg::Piece { index: r.below(n as u64) as u32, begin: 0, block: vec![1, 2, 3] }),
            }
        };
        let gap = |r: &mut Rng64| -> u64 {
            match r.below(8) {
                0 => 119_000,
                1 => 118_999,
                2 => 119_000 - r.range(0, 50),
                _ => r.range(0, 119_000),
            }
        };
        let kind = r.below(7);
        match kind {
            6 => {
                // not even a handshake: total silence from the first byte on (keep-alives at most)
                peer.hs = Hs::Absent;
                peer.bitfield = BitfieldMode::Omit;
                if r.chance(1, 2) {
                    peer.keepalive = Some(r.range(1000, 119_000));
                }
            }
            0 | 1 => {
                // nothing after the handshake (but keep-alives in one variant)
                if kind == 1 {
                    peer.keepalive = Some(r.range(1000, 119_000));
                }
                // and now and then it stops reading for more than an interval, so that the client's
                // own keep-alive write blocks across a tick; it reads again before the third tick
                let mut h = Rng64::sub(seed ^ (j as u64 + 1), "keepalive-stall");
                if h.chance(1, 4) {
                    peer.script.push(step(When::At(h.range(60_000, 118_000)), Act::Stall(h.range(125_000, 200_000))));
                }
            }
            2 => {
                // chatty for the whole run
                let mut t = r.range(0, 100_000);
                while t < 1_000_000 {
                    peer.script.push(step(When::At(t), real(&mut r)));
                    t += gap(&mut r);
                }
                if r.chance(1, 2) {
                    peer.keepalive = Some(r.range(1000, 100_000));
                }
            }
            3 => {
                // busy, then silent for good (keep-alives may continue)
                let mut t = r.range(0, 50_000);
                let stop = r.range(0, 400_000);
                while t < stop {
                    peer.script.push(step(When::At(t), real(&mut r)));
                    t += gap(&mut r);
                }
                if r.chance(1, 2) {
                    peer.keepalive = Some(r.range(1000, 119_000));
                }
            }
            4 => {
                // silent stretch in the middle
                let mut t = r.range(0, 50_000);
                let stop = r.range(10_000, 200_000);
                while t < stop {
                    peer.script.push(step(When::At(t), real(&mut r)));
                    t += gap(&mut r);
                }
                t += r.range(361_000, 500_000);
                while t < 1_000_000 {
                    peer.script.push(step(When::At(t), real(&mut r)));
                    t += gap(&mut r);
                }
            }
            _ => {
                // holds a reservation, then goes silent
                peer.has = vec![true; n];
                peer.unchoke = Unchoke::OnInterested(r.range(1, 1000));
                for i in 0..n as u32 {
                    peer.answer.withhold.push((i, 0));
                }
                if r.chance(1, 2) {
                    peer.keepalive = Some(r.range(1000, 119_000));
                }
            }
        }
        // partitions: shorter than an interval, or longer than the whole inactivity limit
        if r.chance(1, 5) {
            let d = if r.chance(1, 2) { r.range(1_000, 100_000) } else { r.range(365_000, 500_000) };
            peer.script.push(step(When::At(r.range(0, 400_000)), Act::Partition(d)));
        }
        p.peers.push(peer);
    }
    // a very slow honest seeder: pieces complete on its connection, minutes apart, while other
    // peers sit silent on the same (end-game) pieces
    if r.chance(1, 3) {
        let mut s = base_peer(k, n);
        s.unchoke = Unchoke::OnInterested(r.range(1, 2000));
        s.answer.delay_min = r.range(60_000, 250_000);
        s.answer.delay_max = s.answer.delay_min + r.range(0, 60_000);
        s.keepalive = Some(50_000);
        s.script.push(step(When::At(0), Act::Send(Msg::Interested)));
        p.peers.push(s);
    }
    let names: Vec<String> = p.peers.iter().filter(|x| x.listed).map(|x| x.name.clone()).collect();
    p.tracker.steps.push((1, TrackerStep::Good { peers: names, malformed: 0, wrong_id_for: vec![] }));
    p.deadline_ms = r.range(800_000, 1_000_000);
    p.stop_on_done = false;
    p
}

/// Declared-only torrents (no content): one peer advertises a few pieces, the last one among
/// them, unchokes and never answers. What is observed is how long the client thinks each piece is
/// (the hook at the assignment and the requests on the wire), for totals below and above 2^32 and
/// piece lengths that are not powers of two.
pub fn phantom_piece(seed: u64) -> Plan {
    let mut r = Rng64::sub(seed, "phantom-piece");
    let total = *r.pick(&[
        (1u64 << 32) + 12_345,
        (1 << 32) + 1,
        5_000_000_000,
        (1 << 33) + 1,
        (1 << 32) - 1,
        3_000_000_000,
        100_000_007,
        (1 << 31) + 17,
    ]) + r.below(1000);
    let pl = *r.pick(&[3_000_001u64, 5_000_000, (1 << 24) + 1, 1_000_003, 1 << 22, 9_999_991]);
    let mut g = simple_geometry(pl, total);
    g.phantom = true;
    if r.chance(1, 2) {
        // several files, each below 4 GiB
        let k = r.range(2, 4);
        let mut left = total;
        let mut files = Vec::new();
        for i in 0..k {
            let l = if i + 1 == k { left } else { (left / (k - i)).min(u32::MAX as u64 - r.range(0, 1000)) };
            files.push(FileSpec { path: format!("f{}.bin", i), len: l });
            left -= l;
        }
        g.single = false;
        g.name = "bundle".into();
        g.files = files;
    }
    let n = g.pieces();
    let mut p = base_plan("phantom-piece", seed, g);
    let mut peer = base_peer(0, n);
    peer.essential = false;
    peer.has = vec![false; n];
    peer.has[n - 1] = true;
    for _ in 0..r.range(0, 2) {
        peer.has[r.usize_below(n)] = true;
    }
    peer.unchoke = Unchoke::OnInterested(r.range(1, 50));
    // never answers (there is nothing to answer with)
    peer.answer.delay_min = 1_000_000_000;
    peer.answer.delay_max = 1_000_000_000;
    peer.keepalive = None;
    // chokes and unchokes once, so that more than one piece gets assigned
    peer.strict_choke = true;
    peer.script.push(step(When::AfterRx { kind: "Request".into(), count: 1, plus: 200 }, Act::Choke));
    peer.script.push(step(When::AfterRx { kind: "Request".into(), count: 1, plus: 400 }, Act::Unchoke));
    p.peers.push(peer);
    good_tracker(&mut p, 1);
    p.deadline_ms = 3_000;
    p.stop_on_done = false;
    p
}

pub fn smoke(seed: u64) -> Plan {
    let g = simple_geometry(32768, 100_000);
    let n = g.pieces();
    let mut p = base_plan("smoke", seed, g);
    p.peers.push(base_peer(0, n));
    good_tracker(&mut p, 5);
    p
}

pub fn generate(profile: &str, seed: u64) -> Option<Plan> {
    Some(match profile {
        "smoke" => smoke(seed),
        "geometry" => geometry(seed),
        "hostile-names" => hostile_names(seed),
        "announce-url" => announce_url(seed),
        "honest-swarm" => honest_swarm(seed),
        "riga-stream" => riga_stream(seed),
        "garbage-peer" => garbage_peer(seed),
        "tiling" => tiling(seed),
        "adversary-mix" => adversary_mix(seed),
        "leechers" => leechers(seed),
        "handshakes" => handshakes(seed),
        "announce" => announce(seed),
        "stall" => stall(seed),
        "bookkeeping" => bookkeeping(seed),
        "choking" => choking(seed),
        "tracker-faults" => tracker_faults(seed),
        "keepalive" => {
            // tuning knob (own generator: the rest of the plan is what it was without the knob):
            // in a third of the runs the manager's command queues are short, so that senders meet
            // a full queue as they would under load
            let mut p = keepalive(seed);
            let mut k = Rng64::sub(seed, "keepalive-chan-cap");
            if k.chance(1, 3) {
                p.chan_cap = Some(*k.pick(&[1usize, 2, 4]));
            }
            p
        }
        "phantom-piece" => phantom_piece(seed),
        _ => return None,
    })
}
