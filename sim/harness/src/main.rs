mod actors;
mod check;
mod codec;
mod gen;
mod oracles_dl;
mod oracles_mgr;
mod oracles_time;
mod oracles_wire;
mod riga;
mod plan;
mod run;
mod shrink;
mod torrent;
mod view;

use check::Check;
use std::io::Write;

fn registry() -> Vec<Box<dyn Check>> {
    vec![
        Box::new(oracles_wire::C01),
        Box::new(oracles_dl::C02),
        Box::new(oracles_dl::C03),
        Box::new(oracles_dl::C04),
        Box::new(oracles_time::C06),
        Box::new(oracles_wire::C08),
        Box::new(oracles_wire::C09),
        Box::new(oracles_wire::C10),
        Box::new(oracles_wire::C11),
        Box::new(oracles_mgr::C12),
        Box::new(oracles_mgr::C13),
        Box::new(oracles_mgr::C14),
        Box::new(oracles_dl::C18),
        Box::new(oracles_time::C19),
        Box::new(oracles_time::C20),
    ]
}

fn find(id: &str) -> Option<Box<dyn Check>> {
    registry().into_iter().find(|c| c.id() == id)
}

fn main() {
    // never let the real progress view reach the terminal: fd 1 -> /dev/null, we print via a dup
    let out_fd = unsafe { libc::dup(1) };
    unsafe {
        let devnull = libc::open(b"/dev/null\0".as_ptr() as *const libc::c_char, libc::O_WRONLY);
        libc::dup2(devnull, 1);
    }
    let mut out = unsafe { <std::fs::File as std::os::fd::FromRawFd>::from_raw_fd(out_fd) };
    run::install_panic_hook();
    let mut args: Vec<String> = std::env::args().collect();
    // the client must not learn anything from the real working directory: fix it (file arguments
    // are made absolute first)
    for a in args.iter_mut().skip(1) {
        if a.ends_with(".json") && !a.starts_with('/') {
            if let Ok(cwd) = std::env::current_dir() {
                *a = cwd.join(&*a).to_string_lossy().to_string();
            }
        }
    }
    let _ = std::env::set_current_dir("/");
    let verif_dir = std::env::var("VERIF_DIR").unwrap_or_else(|_| "/verif".to_string());
    let seed: u64 = std::env::var("VERIF_SEED").ok().and_then(|s| s.parse().ok()).unwrap_or(0);
    let code = match args.get(1).map(|s| s.as_str()) {
        Some("check") => {
            let id = args.get(2).cloned().unwrap_or_default();
            let tier = args.get(3).cloned().or_else(|| std::env::var("VERIF_TIER").ok()).unwrap_or("quick".into());
            match find(&id) {
                Some(c) => {
                    check::spawn_watchdog(id.clone(), verif_dir.clone(), out_fd);
                    writeln!(out, "VERIF_SEED={} property={} tier={}", seed, id, tier).ok();
                    check::run_check(c.as_ref(), &tier, seed, &verif_dir, &mut out).exit
                }
                None => {
                    writeln!(out, "unknown property {}", id).ok();
                    2
                }
            }
        }
        Some("replay") => {
            let path = args.get(2).cloned().unwrap_or_default();
            let id = std::fs::read_to_string(&path)
                .ok()
                .and_then(|s| serde_json::from_str::<serde_json::Value>(&s).ok())
                .and_then(|d| d["property"].as_str().map(|s| s.to_string()))
                .unwrap_or_default();
            match find(&id) {
                Some(c) => {
                    check::spawn_watchdog(id.clone(), verif_dir.clone(), out_fd);
                    check::replay(c.as_ref(), &path, &mut out)
                }
                None => {
                    writeln!(out, "replay file names unknown property {:?}", id).ok();
                    2
                }
            }
        }
        Some("time") => {
            // time <profile> <count>: per-run wall time on one thread, slowest seeds listed
            let profile = args.get(2).cloned().unwrap_or("smoke".into());
            let n: u64 = args.get(3).and_then(|s| s.parse().ok()).unwrap_or(100);
            let mut v = Vec::new();
            let off: u64 = args.get(4).and_then(|s| s.parse().ok()).unwrap_or(0);
            for i in 0..n {
                let i = i + off;
                let t = std::time::Instant::now();
                let plan = gen::generate(&profile, i).expect("profile");
                let tg = t.elapsed();
                let r = run::run_plan(&plan);
                v.push((t.elapsed().as_micros(), tg.as_micros(), i, r.entries.len(), r.end_ms));
            }
            v.sort();
            v.reverse();
            let total: u128 = v.iter().map(|x| x.0).sum();
            writeln!(out, "total {} ms, mean {} us", total / 1000, total / n as u128).ok();
            for x in v.iter().take(8) {
                writeln!(out, "seed {} run {} us (gen {} us) events {} end_ms {}", x.2, x.0, x.1, x.3, x.4).ok();
            }
            0
        }
        Some("digests") => {
            // digests <profile> <count>: event-log digest of `count` runs, computed on
            // VERIF_WORKERS threads, printed in seed order
            let profile = args.get(2).cloned().unwrap_or("smoke".into());
            let n: u64 = args.get(3).and_then(|s| s.parse().ok()).unwrap_or(100);
            let workers: usize = std::env::var("VERIF_WORKERS").ok().and_then(|s| s.parse().ok()).unwrap_or(16);
            let next = std::sync::atomic::AtomicU64::new(0);
            let res = std::sync::Mutex::new(std::collections::BTreeMap::new());
            std::thread::scope(|sc| {
                for _ in 0..workers {
                    sc.spawn(|| loop {
                        let i = next.fetch_add(1, std::sync::atomic::Ordering::SeqCst);
                        if i >= n {
                            break;
                        }
                        let s = (seed << 32) + i;
                        let plan = gen::generate(&profile, s).expect("profile");
                        let r = run::run_plan(&plan);
                        res.lock().unwrap().insert(i, (r.digest, r.entries.len(), r.end_ms));
                    });
                }
            });
            for (i, (d, e, t)) in res.lock().unwrap().iter() {
                writeln!(out, "{} {} {:016x} events={} end_ms={}", profile, i, d, e, t).ok();
            }
            0
        }
        Some("show") => {
            // show <profile> <seed> [filter]
            let profile = args.get(2).cloned().unwrap_or("smoke".into());
            let s: u64 = args.get(3).and_then(|s| s.parse().ok()).unwrap_or(0);
            // `show file <replay.json>` runs the plan stored in a replay file
            let plan = if profile == "file" {
                let doc: serde_json::Value = serde_json::from_str(&std::fs::read_to_string(args.get(3).unwrap()).unwrap()).unwrap();
                serde_json::from_value(doc["plan"].clone()).unwrap()
            } else {
                gen::generate(&profile, s).expect("profile")
            };
            let t = std::time::Instant::now();
            let r = run::run_plan(&plan);
            let wall = t.elapsed();
            if args.get(4).map(|s| s.as_str()) == Some("plan") {
                writeln!(out, "{}", serde_json::to_string_pretty(&check::sample_of(&plan)).unwrap()).ok();
            }
            for e in r.entries.iter() {
                let s = e.render();
                if std::env::var_os("RDSIM_SHOW_ALL").is_none() && (s.contains("Snapshot") || s.contains("Buffered") || s.contains("PeerRead") || s.contains("ClientRead")) {
                    continue;
                }
                writeln!(out, "{}", &s[..s.len().min(260)]).ok();
            }
            writeln!(
                out,
                "end={:?} end_ms={} goal={:?} digest={:016x} events={} wall={:?} panics={:?} err={:?}",
                r.end,
                r.end_ms,
                r.goal_ms,
                r.digest,
                r.entries.len(),
                wall,
                r.panics,
                r.harness_error
            )
            .ok();
            writeln!(out, "stats={:?}", r.stats).ok();
            0
        }
        _ => {
            writeln!(out, "usage: rdsim check <ID> <quick|thorough> | replay <file> | show <profile> <seed>").ok();
            2
        }
    };
    out.flush().ok();
    std::process::exit(code);
}
