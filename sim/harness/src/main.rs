mod actors;
mod codec;
mod gen;
mod plan;
mod run;
mod torrent;

fn main() {
    // never let the real progress view reach the terminal
    let out_fd = unsafe { libc::dup(1) };
    unsafe {
        let devnull = libc::open(b"/dev/null\0".as_ptr() as *const libc::c_char, libc::O_WRONLY);
        libc::dup2(devnull, 1);
    }
    let mut out = unsafe { <std::fs::File as std::os::fd::FromRawFd>::from_raw_fd(out_fd) };
    use std::io::Write;
    run::install_panic_hook();
    let args: Vec<String> = std::env::args().collect();
    let profile = args.get(1).cloned().unwrap_or("smoke".into());
    let seed: u64 = args.get(2).and_then(|s| s.parse().ok()).unwrap_or(0);
    let plan = gen::generate(&profile, seed).expect("profile");
    let t = std::time::Instant::now();
    let r = run::run_plan(&plan);
    let wall = t.elapsed();
    for e in r.entries.iter() {
        let s = e.render();
        if s.contains("Snapshot") { continue; }
        writeln!(out, "{}", &s[..s.len().min(300)]).unwrap();
    }
    writeln!(out, "end={:?} end_ms={} goal={:?} digest={:016x} events={} wall={:?} panics={:?} err={:?}", r.end, r.end_ms, r.goal_ms, r.digest, r.entries.len(), wall, r.panics, r.harness_error).unwrap();
    writeln!(out, "stats={:?}", r.stats).unwrap();
    writeln!(out, "files={:?}", r.files.iter().map(|(k,v)| (k.clone(), v.len())).collect::<Vec<_>>()).unwrap();
}
