//! Plan minimisation: drop peers, script steps, tracker steps and faults, flatten the network,
//! shrink the torrent — keep a candidate while the same rule still fires.

use crate::check::{execute, Check, Violation};
use crate::codec::Msg;
use crate::plan::*;

fn msg_piece(m: &Msg) -> Option<u32> {
    match m {
        Msg::Have(i) => Some(*i),
        Msg::Request { index, .. } | Msg::Cancel { index, .. } | Msg::Piece { index, .. } => Some(*index),
        _ => None,
    }
}

/// Cut the torrent down to its first `n` pieces (files truncated from the end).
pub fn truncate_pieces(p: &Plan, n: usize) -> Option<Plan> {
    let g = &p.geometry;
    if n == 0 || n >= g.pieces() {
        return None;
    }
    let mut q = p.clone();
    let mut budget = n as u64 * g.piece_len;
    let mut files = Vec::new();
    for f in &g.files {
        if budget == 0 {
            break;
        }
        let l = f.len.min(budget);
        files.push(FileSpec { path: f.path.clone(), len: l });
        budget -= l;
    }
    if files.is_empty() || files.iter().map(|f| f.len).sum::<u64>() == 0 {
        return None;
    }
    if q.geometry.single {
        files.truncate(1);
    }
    q.geometry.files = files;
    let n2 = q.geometry.pieces();
    for peer in q.peers.iter_mut() {
        peer.has.truncate(n2);
        while peer.has.len() < n2 {
            peer.has.push(false);
        }
        peer.script.retain(|s| match &s.act {
            Act::Gain(i) => (*i as usize) < n2,
            Act::Request(i, _, _) => (*i as usize) < n2,
            Act::Send(m) => msg_piece(m).map(|i| (i as usize) < n2).unwrap_or(true) && !matches!(m, Msg::Bitfield(_)),
            _ => true,
        });
        peer.answer.corrupt.retain(|(i, _)| (*i as usize) < n2);
        peer.answer.withhold.retain(|(i, _)| (*i as usize) < n2);
    }
    Some(q)
}

fn candidates(p: &Plan) -> Vec<Plan> {
    let mut out = Vec::new();
    // fewer peers
    if p.peers.len() > 1 {
        // drop the second half, then each single peer
        let mut q = p.clone();
        q.peers.truncate((p.peers.len() + 1) / 2);
        out.push(q);
        for i in (0..p.peers.len()).rev() {
            let mut q = p.clone();
            let name = q.peers.remove(i).name;
            for (_, s) in q.tracker.steps.iter_mut() {
                if let TrackerStep::Good { peers, wrong_id_for, .. } = s {
                    peers.retain(|n| *n != name);
                    wrong_id_for.retain(|n| *n != name);
                }
            }
            out.push(q);
        }
    }
    // smaller torrent
    let n = p.geometry.pieces();
    for k in [1, n / 4, n / 2, n.saturating_sub(1)] {
        if let Some(q) = truncate_pieces(p, k) {
            out.push(q);
        }
    }
    // tracker steps
    if p.tracker.steps.len() > 1 {
        let mut q = p.clone();
        let last = q.tracker.steps.pop().unwrap();
        q.tracker.steps = vec![last];
        out.push(q);
        for i in 0..p.tracker.steps.len() - 1 {
            let mut q = p.clone();
            q.tracker.steps.remove(i);
            out.push(q);
        }
    }
    for (i, (lat, _)) in p.tracker.steps.iter().enumerate() {
        if *lat > 1 {
            let mut q = p.clone();
            q.tracker.steps[i].0 = 1;
            out.push(q);
        }
    }
    // faults
    if !p.disk_fail_writes.is_empty() || !p.disk_fail_reads.is_empty() || p.fs_yield_pm > 0 {
        let mut q = p.clone();
        q.disk_fail_writes.clear();
        q.disk_fail_reads.clear();
        q.fs_yield_pm = 0;
        out.push(q);
    }
    if p.disk_full_from.is_some() {
        let mut q = p.clone();
        q.disk_full_from = None;
        out.push(q);
    }
    if p.sched_yield_pm > 0 {
        let mut q = p.clone();
        q.sched_yield_pm = 0;
        out.push(q);
    }
    if p.chan_cap.is_some() {
        let mut q = p.clone();
        q.chan_cap = None;
        out.push(q);
    }
    if !p.preexisting.is_empty() {
        let mut q = p.clone();
        q.preexisting.clear();
        out.push(q);
    }
    // per peer simplifications
    for (i, peer) in p.peers.iter().enumerate() {
        if !peer.script.is_empty() {
            let mut q = p.clone();
            q.peers[i].script.clear();
            out.push(q);
            if peer.script.len() > 1 {
                let mut q = p.clone();
                let half = peer.script.len() / 2;
                q.peers[i].script.truncate(half);
                out.push(q);
                let mut q = p.clone();
                q.peers[i].script.drain(..half);
                out.push(q);
                for j in (0..peer.script.len()).rev() {
                    let mut q = p.clone();
                    q.peers[i].script.remove(j);
                    out.push(q);
                }
            }
        }
        let flat = NetPlan::default();
        if peer.net != flat {
            let mut q = p.clone();
            q.peers[i].net = flat.clone();
            out.push(q);
            if peer.net.seg != Seg::Whole {
                let mut q = p.clone();
                q.peers[i].net.seg = Seg::Whole;
                out.push(q);
            }
            if peer.net.yield_pm > 0 || peer.net.short_read_pm > 0 || peer.net.short_write_pm > 0 {
                let mut q = p.clone();
                q.peers[i].net.yield_pm = 0;
                q.peers[i].net.short_read_pm = 0;
                q.peers[i].net.short_write_pm = 0;
                out.push(q);
            }
            if peer.net.lat_min != 1 || peer.net.lat_max != 1 {
                let mut q = p.clone();
                q.peers[i].net.lat_min = 1;
                q.peers[i].net.lat_max = 1;
                out.push(q);
            }
        }
        let plain = Answer::default();
        if peer.answer != plain {
            let mut q = p.clone();
            q.peers[i].answer = plain;
            out.push(q);
            if peer.answer.delay_max > 0 {
                let mut q = p.clone();
                q.peers[i].answer.delay_min = 0;
                q.peers[i].answer.delay_max = 0;
                out.push(q);
            }
            if peer.answer.dup_pm > 0 {
                let mut q = p.clone();
                q.peers[i].answer.dup_pm = 0;
                out.push(q);
            }
        }
        if !peer.dial_in.is_empty() && peer.listed {
            let mut q = p.clone();
            q.peers[i].dial_in.clear();
            out.push(q);
        }
        if peer.dial_in.len() > 1 {
            let mut q = p.clone();
            q.peers[i].dial_in.truncate(1);
            out.push(q);
        }
        if peer.keepalive.is_some() {
            let mut q = p.clone();
            q.peers[i].keepalive = None;
            out.push(q);
        }
        if peer.hs != Hs::Ok {
            let mut q = p.clone();
            q.peers[i].hs = Hs::Ok;
            out.push(q);
        }
        if peer.bitfield != BitfieldMode::Send {
            let mut q = p.clone();
            q.peers[i].bitfield = BitfieldMode::Send;
            out.push(q);
        }
        if peer.has.iter().any(|h| !*h) && peer.script.iter().all(|s| !matches!(s.act, Act::Gain(_))) {
            let mut q = p.clone();
            q.peers[i].has = vec![true; peer.has.len()];
            out.push(q);
        }
    }
    // shorter horizon
    if p.deadline_ms > 20_000 {
        let mut q = p.clone();
        q.deadline_ms = p.deadline_ms / 2;
        out.push(q);
    }
    // fewer / merged files
    if p.geometry.files.len() > 1 {
        let mut q = p.clone();
        let total = q.geometry.total();
        let f0 = q.geometry.files[0].clone();
        q.geometry.files = vec![FileSpec { path: f0.path, len: total }];
        out.push(q);
        for i in (0..p.geometry.files.len()).rev() {
            // merge file i into its neighbour (keeps total and piece count)
            let mut q = p.clone();
            let f = q.geometry.files.remove(i);
            let j = if i == 0 { 0 } else { i - 1 };
            q.geometry.files[j].len += f.len;
            out.push(q);
        }
    }
    out
}

pub fn minimise(check: &dyn Check, plan: Plan, vi: &Violation) -> (Plan, Violation, u64, Vec<String>, u32) {
    let budget: u32 = std::env::var("VERIF_SHRINK_RUNS").ok().and_then(|s| s.parse().ok()).unwrap_or(400);
    let mut tries = 0u32;
    let (first, mut tail) = execute(check, plan.clone(), None);
    let mut best = plan;
    let mut best_vi = first.verdict.violations.iter().find(|v| v.rule == vi.rule).cloned().unwrap_or_else(|| vi.clone());
    let mut digest = first.digest;
    // first cut: nothing scheduled after the violation can matter
    if let Some(tv) = first.viol_t_ms {
        if tv + 3_000 < best.deadline_ms {
            let mut cand = best.clone();
            cand.deadline_ms = tv + 3_000;
            cand.stop_on_done = false;
            for p in cand.peers.iter_mut() {
                p.script.retain(|s| match s.when {
                    When::At(t) => t <= tv + 1_000,
                    _ => true,
                });
                p.dial_in.retain(|t| *t <= tv + 1_000);
            }
            if check.plan_ok(&cand) {
                tries += 1;
                let (one, t) = execute(check, cand.clone(), None);
                if one.harness_error.is_none() {
                    if let Some(v) = one.verdict.violations.iter().find(|v| v.rule == vi.rule) {
                        best = cand;
                        best_vi = v.clone();
                        digest = one.digest;
                        tail = t;
                    }
                }
            }
        }
    }
    let mut progress = true;
    while progress && tries < budget {
        progress = false;
        for cand in candidates(&best) {
            if tries >= budget {
                break;
            }
            if !check.plan_ok(&cand) {
                continue;
            }
            tries += 1;
            let (one, t) = execute(check, cand.clone(), None);
            if one.harness_error.is_some() {
                continue;
            }
            if let Some(v) = one.verdict.violations.iter().find(|v| v.rule == vi.rule) {
                best = cand;
                best_vi = v.clone();
                digest = one.digest;
                tail = t;
                progress = true;
                break;
            }
        }
    }
    (best, best_vi, digest, tail, tries)
}
