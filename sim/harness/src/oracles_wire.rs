//! Wire-level oracles: C01 (only verified data is owned), C08 (handshake gate), C09 (uploads),
//! C10 (request tiling), C11 (advertisements).

use crate::check::{Check, ProfileSpec, Verdict};
use crate::codec::{bitfield_bits, hex_upper, norm_debug, sha1, Item, Msg, BLOCK};
use crate::gen;
use crate::oracles_dl::{file_report, first_panic, geometry_class, hash_of};
use crate::plan::{Plan, TrackerStep};
use crate::view::{View, TK, TL};
use std::collections::{BTreeMap, BTreeSet, VecDeque};
use world::{ConnId, DiskOp, Ev};

/// Pieces with an acknowledged write of bytes hashing to the torrent's hash, maintained while
/// walking the log.
pub struct Verified {
    pub set: BTreeSet<usize>,
    /// path -> piece indices whose listed hash equals the hash of what the file holds now
    content: BTreeMap<String, Vec<usize>>,
    by_hash: BTreeMap<[u8; 20], Vec<usize>>,
}

impl Default for Verified {
    fn default() -> Self {
        Verified { set: BTreeSet::new(), content: BTreeMap::new(), by_hash: BTreeMap::new() }
    }
}

impl Verified {
    /// Initial state: correct piece files left behind by an earlier run count as stored.
    /// Nothing here depends on how the client names its piece files.
    pub fn start(v: &View) -> Verified {
        let mut s = Verified::default();
        let t = &v.out.torrent;
        for i in 0..t.pieces() {
            s.by_hash.entry(t.piece_hashes[i]).or_default().push(i);
        }
        for (i, kind) in &v.plan.preexisting {
            let i = *i as usize;
            if i < t.pieces() {
                let path = format!("/sim/cwd/{}.piece", hex_upper(&t.piece_hashes[i]));
                let idx = if *kind == 0 { s.by_hash.get(&t.piece_hashes[i]).cloned().unwrap_or_default() } else { vec![] };
                s.content.insert(path, idx);
            }
        }
        s.recompute();
        s
    }

    fn recompute(&mut self) {
        self.set = self.content.values().flatten().cloned().collect();
    }

    pub fn on_event(&mut self, v: &View, ev: &Ev) {
        if let Ev::Disk { op: DiskOp::Remove, path, ok: true, .. } = ev {
            if self.content.remove(path).map(|o| !o.is_empty()).unwrap_or(false) {
                self.recompute();
            }
        }
        if let Ev::Disk { op: DiskOp::Write | DiskOp::FileState, path, ok: true, data, .. } = ev {
            if self.by_hash.is_empty() {
                let t = &v.out.torrent;
                for i in 0..t.pieces() {
                    self.by_hash.entry(t.piece_hashes[i]).or_default().push(i);
                }
            }
            // the file now holds `data`, whatever it held before
            let idx = self.by_hash.get(&sha1(data)).cloned().unwrap_or_default();
            let old = self.content.insert(path.clone(), idx.clone());
            if old.as_ref().map(|o| !o.is_empty()).unwrap_or(false) {
                self.recompute();
            } else {
                self.set.extend(idx);
            }
        }
    }

    /// Does `path` currently hold the verified data of some piece?
    pub fn holds_piece(&self, path: &str) -> bool {
        self.content.get(path).map(|i| !i.is_empty()).unwrap_or(false)
    }
}

fn conn_of(v: &View, addr: &str, seq: u64) -> Option<ConnId> {
    v.conn_of_addr_at(addr, seq)
}

/// Reference model of what one connection task is fetching (C10, C01-S3).
#[derive(Clone)]
pub struct Epoch {
    pub index: usize,
    pub len: usize,
    pub requests: Vec<(usize, usize)>,
    pub outstanding: Vec<(usize, usize)>,
    pub accepted: Vec<(usize, usize)>,
    pub buf: Vec<u8>,
    pub owed: bool,
    pub open_seq: u64,
    pub complete_seq: Option<u64>,
    pub done_seen: bool,
    /// the peer has unchoked us (again) since the client's last request for this piece: the client
    /// re-decides at that point (new assignment, carry on, or give the piece up without a word),
    /// so until it asks again nothing is owed on this piece
    pub limbo: bool,
}

impl Epoch {
    pub fn covered(&self) -> bool {
        let mut r = self.requests.clone();
        r.sort();
        let mut pos = 0;
        for (b, l) in r {
            if b > pos {
                return false;
            }
            pos = pos.max(b + l);
        }
        pos >= self.len
    }
}

/// Per-connection queue of peer items not yet consumed by the client, to pair `Decoded` hook
/// events with the bytes the peer actually sent.
#[derive(Default)]
pub struct PeerItems {
    pub q: BTreeMap<ConnId, VecDeque<Item>>,
}

impl PeerItems {
    pub fn push(&mut self, c: ConnId, it: Item) {
        self.q.entry(c).or_default().push_back(it);
    }
    /// Next non-skipped item the client should decode on `c`.
    pub fn pop_msg(&mut self, c: ConnId) -> Option<Msg> {
        let q = self.q.get_mut(&c)?;
        while let Some(it) = q.pop_front() {
            if let Item::Msg(m) = it {
                return Some(m);
            }
        }
        None
    }
}

fn parse_piece_debug(frame: &str) -> Option<(usize, usize, usize)> {
    let (name, nums) = norm_debug(frame);
    if name == "Piece" && nums.len() >= 3 {
        Some((nums[0] as usize, nums[1] as usize, nums[2] as usize))
    } else {
        None
    }
}

// ---------------------------------------------------------------------------------------------
// C10

pub struct C10;

pub struct TilingOutcome {
    pub epochs: u64,
    pub completed: u64,
    pub corrupt_completions: Vec<(String, usize, u64)>,
}

/// Walk the timeline with the PieceRx reference model. Reports C10 rule breaches through `vd`
/// when `report` is set; always returns what it learned (used by C01 as well).
pub fn tiling_walk(v: &View, vd: &mut Verdict, report: bool) -> TilingOutcome {
    let t = &v.out.torrent;
    let mut epochs: BTreeMap<ConnId, Epoch> = BTreeMap::new();
    let mut closed: BTreeMap<ConnId, Epoch> = BTreeMap::new();
    let mut items = PeerItems::default();
    let mut out = TilingOutcome { epochs: 0, completed: 0, corrupt_completions: vec![] };
    let fail = |vd: &mut Verdict, rule: &str, d: String, seq: u64| {
        if report {
            vd.fail("C10", rule, d, seq)
        }
    };
    for TL { seq, k, .. } in &v.tl {
        let seq = *seq;
        match k {
            TK::P(c, it) => items.push(*c, it.clone()),
            TK::C(c, Msg::Request { index, begin, len }) => {
                let (index, begin, len) = (*index as usize, *begin as usize, *len as usize);
                match epochs.get_mut(c) {
                    None => fail(vd, "C10.request-without-assignment", format!("conn {} Request({},{},{}) with no piece assigned", c, index, begin, len), seq),
                    Some(e) => {
                        if e.complete_seq.is_some() {
                            fail(vd, "C10.request-after-completion", format!("conn {} Request({},{},{}) after piece {} was complete", c, index, begin, len, e.index), seq);
                        }
                        if index != e.index {
                            fail(vd, "C10.wrong-piece", format!("conn {} Request names piece {} while fetching {}", c, index, e.index), seq);
                        }
                        if len == 0 || len > BLOCK || begin + len > e.len {
                            fail(vd, "C10.bad-range", format!("conn {} Request({},{},{}) for a piece of {} bytes", c, index, begin, len, e.len), seq);
                        }
                        if e.requests.iter().any(|(b, l)| begin < b + l && *b < begin + len) {
                            fail(vd, "C10.overlap", format!("conn {} Request({},{},{}) overlaps an earlier request of this piece: {:?}", c, index, begin, len, e.requests), seq);
                        }
                        e.requests.push((begin, len));
                        e.outstanding.push((begin, len));
                        e.owed = false;
                        e.limbo = false;
                    }
                }
            }
            TK::C(c, Msg::Cancel { index, .. }) => {
                if let Some(e) = epochs.get(c) {
                    if e.index == *index as usize {
                        epochs.remove(c);
                    }
                }
            }
            TK::Raw(i) => match v.ev(*i) {
                Ev::Assigned { addr, index, len } => {
                    if let Some(c) = conn_of(v, addr, seq) {
                        out.epochs += 1;
                        if *len != t.piece_len(*index) {
                            fail(vd, "C10.piece-length", format!("piece {} assigned with length {} (torrent says {})", index, len, t.piece_len(*index)), seq);
                        }
                        epochs.insert(
                            c,
                            Epoch {
                                index: *index,
                                len: *len,
                                requests: vec![],
                                outstanding: vec![],
                                accepted: vec![],
                                buf: vec![0; *len],
                                owed: false,
                                open_seq: seq,
                                complete_seq: None,
                                done_seen: false,
                                limbo: false,
                            },
                        );
                    }
                }
                Ev::Decoded { addr, frame, .. } => {
                    let c = match conn_of(v, addr, seq) {
                        Some(c) => c,
                        None => continue,
                    };
                    // a piece completed by the model must have been reported before the next frame
                    if frame.starts_with("Unchoke") {
                        if let Some(e) = epochs.get_mut(&c) {
                            e.limbo = true;
                            e.owed = false;
                        }
                    }
                    if let Some(e) = epochs.get(&c) {
                        if let Some(cs) = e.complete_seq {
                            if !e.done_seen && !e.limbo && sha1(&e.buf) == t.piece_hashes[e.index] {
                                fail(vd, "C10.completion-missed", format!("conn {} piece {}: last outstanding block arrived at #{} but the piece was not completed", c, e.index, cs), seq);
                            }
                        }
                    }
                    let m = items.pop_msg(c);
                    if let Some((index, begin, blen)) = parse_piece_debug(frame) {
                        let data = match m {
                            Some(Msg::Piece { index: i2, begin: b2, block }) if i2 as usize == index && b2 as usize == begin && block.len() == blen => block,
                            _ => continue, // decoding disagreement is C06's business
                        };
                        if let Some(e) = epochs.get_mut(&c) {
                            if e.complete_seq.is_some() {
                                continue;
                            }
                            if e.index == index {
                                if let Some(p) = e.outstanding.iter().position(|r| *r == (begin, blen)) {
                                    e.outstanding.remove(p);
                                    e.accepted.push((begin, blen));
                                    if begin + blen <= e.buf.len() {
                                        e.buf[begin..begin + blen].copy_from_slice(&data);
                                    }
                                    vd.probe("block_accepted");
                                    if e.owed {
                                        fail(vd, "C10.no-followup-request", format!("conn {} piece {}: two blocks accepted in a row with unrequested blocks left and no new request", c, e.index), seq);
                                    }
                                    let covered = e.covered();
                                    if !covered && !e.limbo {
                                        e.owed = true;
                                    }
                                    if covered && e.outstanding.is_empty() {
                                        e.complete_seq = Some(seq);
                                        out.completed += 1;
                                        if sha1(&e.buf) != t.piece_hashes[e.index] {
                                            out.corrupt_completions.push((addr.clone(), e.index, seq));
                                        }
                                    }
                                } else {
                                    vd.probe("block_not_outstanding");
                                }
                            } else {
                                vd.probe("block_for_other_piece");
                            }
                        } else {
                            vd.probe("block_without_epoch");
                        }
                    }
                }
                Ev::PieceDone { addr, index } => {
                    if let Some(c) = conn_of(v, addr, seq) {
                        match epochs.get_mut(&c) {
                            Some(e) if e.index == *index && e.complete_seq.is_some() => e.done_seen = true,
                            Some(e) if e.index == *index => fail(
                                vd,
                                "C10.completed-early",
                                format!(
                                    "conn {} piece {} reported complete with outstanding {:?}, requested {:?} of {} bytes",
                                    c, index, e.outstanding, e.requests, e.len
                                ),
                                seq,
                            ),
                            _ => fail(vd, "C10.completed-unassigned", format!("conn {} completed piece {} which the reference model does not see as its open piece", c, index), seq),
                        }
                    }
                }
                // only the client's own close ends its processing: data pushed before a peer's Fin
                // is still read and handled afterwards
                Ev::Close { conn, by: world::Side::Client, .. } => {
                    if let Some(e) = epochs.remove(conn) {
                        closed.insert(*conn, e);
                    }
                }
                // the task gave up on a piece as corrupt although the model has not seen its last
                // outstanding block yet: it tried to complete the piece too early
                Ev::KillReq { addr, reason } if reason.to_lowercase().contains("hash mismatch") => {
                    if let Some(c) = conn_of(v, addr, seq) {
                        // the socket is closed before the manager handles the kill request
                        if let Some(e) = epochs.get(&c).or(closed.get(&c)) {
                            if e.complete_seq.is_none() && !e.accepted.is_empty() {
                                fail(
                                    vd,
                                    "C10.completed-early",
                                    format!("conn {} piece {}: hash checked while blocks {:?} were still outstanding (requested {:?} of {} bytes)", c, e.index, e.outstanding, e.requests, e.len),
                                    seq,
                                );
                            }
                        }
                    }
                }
                _ => {}
            },
            _ => {}
        }
    }
    out
}

impl Check for C10 {
    fn id(&self) -> &'static str {
        "C10"
    }
    fn profiles(&self) -> Vec<ProfileSpec> {
        vec![
            ProfileSpec { name: "tiling", quick: 15_000, thorough: 1_000_000 },
            ProfileSpec { name: "honest-swarm", quick: 2000, thorough: 100_000 },
            // pieces of several MiB in torrents of several GiB: only the requests are observed
            ProfileSpec { name: "phantom-piece", quick: 1000, thorough: 50_000 },
        ]
    }
    fn rule(&self) -> &'static str {
        "profile tiling: piece lengths around multiples of 16 KiB (1, 16383, 16384, 16385, 32768, 40000, 3*16384+7, random), short last piece, 1-3 seeders answering in order / reordered by random delays / duplicating / withholding then choking and unchoking (new epoch). Reference model PieceRx per assignment epoch driven by the causal order of Decoded and client-write events. Non-trivial: >= 1 epoch completed. Distinct: distinct (piece_len, last piece len) classes x interleaving hash."
    }
    fn assumptions(&self) -> Vec<&'static str> {
        vec![
            "pipeline depth and request order are not fixed by the statement and are not enforced",
            "'followed by a further request' is read as: no second block is accepted before a new request went out",
        ]
    }
    fn generate(&self, profile: &str, seed: u64) -> Plan {
        gen::generate(profile, seed).expect("profile")
    }
    fn judge(&self, v: &View) -> Verdict {
        let mut vd = Verdict::default();
        let g = &v.plan.geometry;
        vd.class = hash_of(&(g.piece_len, g.total() % g.piece_len, g.pieces().min(3)));
        if let Some((m, l, who)) = first_panic(v) {
            if who != "C10" {
                vd.inconclusive = Some(format!("{} ({} at {})", who, m, l));
            }
        }
        let o = tiling_walk(v, &mut vd, true);
        vd.nontrivial = o.completed > 0;
        vd.probe_n("epochs", o.epochs);
        vd.probe_n("epochs_completed", o.completed);
        vd
    }
}

// ---------------------------------------------------------------------------------------------
// C01

pub struct C01;

impl Check for C01 {
    fn id(&self) -> &'static str {
        "C01"
    }
    fn profiles(&self) -> Vec<ProfileSpec> {
        vec![
            ProfileSpec { name: "adversary-mix", quick: 20_000, thorough: 1_250_000 },
            // "served only after verified data was stored" needs somebody asking: leechers that
            // request pieces still in flight, with stale files of those pieces lying around
            ProfileSpec { name: "leechers", quick: 4_000, thorough: 200_000 },
        ]
    }
    fn rule(&self) -> &'static str {
        "profile adversary-mix: 1-3 honest seeders + 1-5 adversarial peers (corrupt block at (piece,block), duplicates, blocks for other pieces / wrong offsets / unrequested blocks, truncated block frame then Rst, disconnect after k blocks, disk write errors), 2-25 pieces on both sides of the end-game threshold, yields on. Non-trivial: >= 1 corrupt, misplaced or unrequested block reached an open epoch, or a disk write failed. Distinct: interleaving hash x geometry class."
    }
    fn assumptions(&self) -> Vec<&'static str> {
        vec![
            "SHA-1 collisions are not considered",
            "'downloadable again' is observed as: with an honest seeder present the download still completes",
        ]
    }
    fn generate(&self, profile: &str, seed: u64) -> Plan {
        gen::generate(profile, seed).expect("profile")
    }
    fn judge(&self, v: &View) -> Verdict {
        let mut vd = Verdict::default();
        vd.class = geometry_class(v.plan);
        let t = &v.out.torrent;
        let mut ver = Verified::start(v);
        let mut scratch = Verdict::default();
        let tw = tiling_walk(v, &mut scratch, false);
        for TL { seq, k, .. } in &v.tl {
            let seq = *seq;
            match k {
                TK::C(c, Msg::Have(i)) => {
                    if !ver.set.contains(&(*i as usize)) {
                        vd.fail("C01", "C01.have-unverified", format!("conn {} Have({}) sent before piece {} was verified and stored", c, i, i), seq);
                    }
                }
                TK::C(c, Msg::Bitfield(b)) => {
                    for (i, bit) in bitfield_bits(b, t.pieces()).iter().enumerate() {
                        if *bit && !ver.set.contains(&i) {
                            vd.fail("C01", "C01.bitfield-unverified", format!("conn {} bitfield marks piece {} which is not verified and stored", c, i), seq);
                        }
                    }
                }
                TK::C(c, Msg::Piece { index, .. }) => {
                    if !ver.set.contains(&(*index as usize)) {
                        vd.fail("C01", "C01.served-unverified", format!("conn {} served a block of piece {} which is not verified and stored", c, index), seq);
                    }
                }
                TK::Raw(i) => {
                    let ev = v.ev(*i);
                    match ev {
                        // every whole-file write of the client is a piece store (the output files
                        // are written by the extractor through another interface)
                        Ev::Disk { op: DiskOp::Write, path, ok: true, data, .. } => {
                            let h = sha1(data);
                            let known = t.piece_hashes.iter().any(|x| *x == h);
                            if !known {
                                vd.fail(
                                    "C01",
                                    "C01.stored-unverified",
                                    format!("{} stored with {} bytes hashing to {}, which is no piece hash of the torrent", path, data.len(), hex_upper(&h)),
                                    seq,
                                );
                            }
                        }
                        Ev::Disk { op: DiskOp::Write, ok: false, .. } => vd.probe("disk_write_failed"),
                        // the extractor reads (or tries to read) a piece file that does not hold
                        // verified data
                        Ev::Disk { op: DiskOp::Open, path, .. } => {
                            if !ver.holds_piece(path) {
                                vd.fail(
                                    "C01",
                                    "C01.extract-unverified",
                                    format!("output files are being assembled from {} although it holds no verified piece data", path),
                                    seq,
                                );
                            }
                        }
                        Ev::Snapshot(s) => {
                            for (i, st) in s.status.iter().enumerate() {
                                if *st == -1 && !ver.set.contains(&i) {
                                    vd.fail("C01", "C01.status-have-unverified", format!("piece {} counted as owned without a verified stored copy", i), seq);
                                }
                            }
                        }
                        Ev::PieceDone { index, addr } => {
                            if !ver.set.contains(index) {
                                vd.fail("C01", "C01.done-unverified", format!("piece {} (from {}) marked done without a verified stored copy", index, addr), seq);
                            }
                        }
                        _ => {}
                    }
                    ver.on_event(v, ev);
                }
                _ => {}
            }
        }
        // final state: every piece the client counts as owned is really on the disk
        let last_seq = v.out.entries.last().map(|e| e.seq).unwrap_or(0);
        let owned: BTreeSet<usize> = v.out.entries.iter().filter_map(|e| if let Ev::PieceDone { index, .. } = &e.ev { Some(*index) } else { None }).collect();
        let on_disk: BTreeSet<[u8; 20]> = v.out.files.values().map(|d| sha1(d)).collect();
        for i in owned {
            if !on_disk.contains(&t.piece_hashes[i]) {
                vd.fail("C01", "C01.owned-piece-not-on-disk", format!("piece {} is counted as owned but no file on the disk holds data with its hash", i), last_seq);
            }
        }
        if !v.plan.preexisting.is_empty() {
            vd.probe("stale_piece_files_present");
        }
        // S3: a piece whose assembled data failed the hash is neither stored nor done, and is fetched again
        for (addr, index, seq) in &tw.corrupt_completions {
            vd.probe("corrupt_completion");
            let next_seq = v.out.entries.iter().find(|e| e.seq > *seq && matches!(&e.ev, Ev::Decoded { addr: a, .. } if a == addr)).map(|e| e.seq).unwrap_or(u64::MAX);
            for e in v.out.entries.iter().filter(|e| e.seq > *seq && e.seq < next_seq) {
                if let Ev::PieceDone { addr: a, index: i } = &e.ev {
                    if a == addr && i == index {
                        vd.fail("C01", "C01.corrupt-piece-done", format!("piece {} assembled from {} fails its hash but was marked done", index, addr), e.seq);
                    }
                }
            }
        }
        let s = &v.out.stats;
        let bad_inputs = s.get("corrupt_block_sent").cloned().unwrap_or(0)
            + vd.probes.get("disk_write_failed").cloned().unwrap_or(0)
            + scratch.probes.get("block_not_outstanding").cloned().unwrap_or(0)
            + scratch.probes.get("block_for_other_piece").cloned().unwrap_or(0)
            + scratch.probes.get("block_without_epoch").cloned().unwrap_or(0);
        vd.nontrivial = bad_inputs > 0;
        for k in ["block_not_outstanding", "block_for_other_piece", "block_without_epoch", "block_accepted"] {
            if let Some(n) = scratch.probes.get(k) {
                vd.probe_n(k, *n);
            }
        }
        if let Some((m, l, who)) = first_panic(v) {
            vd.inconclusive = Some(format!("{} ({} at {})", who, m, l));
            return vd;
        }
        // with an honest seeder present the download must still complete
        let fr = file_report(v);
        let last = v.out.entries.last().map(|e| e.seq).unwrap_or(0);
        if fr.pieces_stored < t.pieces() && v.plan.disk_full_from.is_some() {
            vd.probe("disk_full_run");
            vd.inconclusive = Some("disk full: the download cannot complete".into());
        } else if fr.pieces_stored < t.pieces() {
            let stuck: Vec<usize> = tw
                .corrupt_completions
                .iter()
                .map(|(_, i, _)| *i)
                .filter(|i| !ver.set.contains(i))
                .collect();
            if !stuck.is_empty() {
                vd.fail("C01", "C01.not-redownloaded", format!("pieces {:?} failed their hash once and were never fetched again ({}/{} stored)", stuck, fr.pieces_stored, t.pieces()), last);
            } else {
                vd.inconclusive = Some("download incomplete for another reason".into());
            }
        }
        vd
    }
}

// ---------------------------------------------------------------------------------------------
// C09

pub struct C09;

impl Check for C09 {
    fn id(&self) -> &'static str {
        "C09"
    }
    fn profiles(&self) -> Vec<ProfileSpec> {
        vec![ProfileSpec { name: "leechers", quick: 15_000, thorough: 1_000_000 }]
    }
    fn rule(&self) -> &'static str {
        "profile leechers: the client first downloads from an honest seeder, then 1-14 leechers (dial-in and listed) send Interested and request streams mixing valid requests with every boundary of (index, begin, len): begin > 0xFFFFC000, len 0, len 16385, index = n, pieces not owned, piece switches, requests while choked and right after the client's Choke arrived; >= 11 interested leechers in some runs so that rotations really choke. Non-trivial: the client served >= 1 block or received >= 1 out-of-range request. Distinct: interleaving hash x (number of leechers, request-kind set)."
    }
    fn assumptions(&self) -> Vec<&'static str> {
        vec![
            "a block served between the manager's unchoke decision and the Unchoke frame is accepted (state lag) provided that frame follows within 5 virtual s on a connection that stays open and is being read; otherwise, and whenever both the wire state and the manager state say choked, it is reported",
            "closing the connection instead of answering is accepted",
        ]
    }
    fn generate(&self, profile: &str, seed: u64) -> Plan {
        gen::generate(profile, seed).expect("profile")
    }
    fn judge(&self, v: &View) -> Verdict {
        let mut vd = Verdict::default();
        let t = &v.out.torrent;
        let mut ver = Verified::start(v);
        // requests the client has decoded per connection, not yet answered
        let mut seen: BTreeMap<ConnId, Vec<(u32, u32, u32)>> = BTreeMap::new();
        let mut wire_unchoked: BTreeMap<ConnId, bool> = BTreeMap::new();
        let mut mgr_choked: BTreeMap<String, bool> = BTreeMap::new();
        let mut kinds: BTreeSet<&'static str> = BTreeSet::new();
        let mut served = 0u64;
        let mut lag: Vec<(ConnId, u64, u64, String)> = Vec::new();
        for TL { seq, k, t: tms } in &v.tl {
            let seq = *seq;
            match k {
                TK::C(c, Msg::Choke) => {
                    wire_unchoked.insert(*c, false);
                }
                TK::C(c, Msg::Unchoke) => {
                    wire_unchoked.insert(*c, true);
                    lag.retain(|x| x.0 != *c);
                }
                TK::C(c, Msg::Piece { index, begin, block }) => {
                    served += 1;
                    let (i, b, l) = (*index as usize, *begin as usize, block.len());
                    let addr = v.conns.get(c).map(|x| x.addr.clone()).unwrap_or_default();
                    let reqs = seen.entry(*c).or_default();
                    match reqs.iter().position(|r| *r == (*index, *begin, l as u32)) {
                        Some(p) => {
                            reqs.remove(p);
                        }
                        None => vd.fail("C09", "C09.unrequested", format!("conn {} Piece({},{},{}) matches no unanswered request of that peer", c, i, b, l), seq),
                    }
                    if i >= t.pieces() || !ver.set.contains(&i) {
                        vd.fail("C09", "C09.not-owned", format!("conn {} served piece {} which the client does not own", c, i), seq);
                    } else {
                        let pl = t.piece_len(i);
                        if l > BLOCK || l == 0 && false || b + l > pl {
                            vd.fail("C09", "C09.range", format!("conn {} Piece({},{},{}) outside the piece ({} bytes) or above 16 KiB", c, i, b, l, pl), seq);
                        } else if t.piece_data(i)[b..b + l] != block[..] {
                            vd.fail("C09", "C09.wrong-bytes", format!("conn {} Piece({},{},{}) does not carry the stored bytes", c, i, b, l), seq);
                        }
                    }
                    let w = wire_unchoked.get(c).cloned().unwrap_or(false);
                    let m = mgr_choked.get(&addr).cloned().unwrap_or(true);
                    if !w && m {
                        vd.fail("C09", "C09.served-while-choked", format!("conn {} ({}) Piece({},{},{}) sent while the client has that peer choked", c, addr, i, b, l), seq);
                    }
                    if !w && !m {
                        // state lag is only a lag if the Unchoke frame then follows
                        vd.probe("served_in_unchoke_lag");
                        lag.push((*c, seq, *tms, format!("conn {} ({}) Piece({},{},{}) sent after the client's Choke, and no Unchoke followed within 5 s", c, addr, i, b, l)));
                    }
                }
                TK::Raw(i) => {
                    let ev = v.ev(*i);
                    ver.on_event(v, ev);
                    match ev {
                        Ev::Decoded { addr, frame, .. } => {
                            let (name, n) = norm_debug(frame);
                            if name == "Request" && n.len() == 3 {
                                if let Some(c) = conn_of(v, addr, seq) {
                                    seen.entry(c).or_default().push((n[0] as u32, n[1] as u32, n[2] as u32));
                                }
                                let (idx, b, l) = (n[0] as usize, n[1], n[2]);
                                if idx >= t.pieces() {
                                    kinds.insert("index_out_of_range");
                                } else if b + l > t.piece_len(idx) as u64 {
                                    kinds.insert("range_out_of_piece");
                                } else if l == 0 {
                                    kinds.insert("len_zero");
                                } else if l > BLOCK as u64 {
                                    kinds.insert("len_over_16k");
                                } else if !ver.set.contains(&idx) {
                                    kinds.insert("piece_not_owned");
                                } else {
                                    kinds.insert("valid");
                                }
                                if b.checked_add(l).map(|e| e > u32::MAX as u64).unwrap_or(true) {
                                    kinds.insert("u32_overflow");
                                }
                                let c = conn_of(v, addr, seq);
                                if c.and_then(|c| wire_unchoked.get(&c).cloned()) != Some(true) {
                                    kinds.insert("while_choked");
                                }
                            }
                        }
                        Ev::Snapshot(s) => {
                            for p in &s.peers {
                                mgr_choked.insert(p.addr.clone(), p.am_choked);
                            }
                        }
                        Ev::Rotation { snap, .. } => {
                            for p in &snap.peers {
                                mgr_choked.insert(p.addr.clone(), p.am_choked);
                            }
                        }
                        _ => {}
                    }
                }
                _ => {}
            }
        }
        for (c, seq, t, what) in &lag {
            let closed_by = v.conns.get(c).and_then(|x| x.client_close).map(|(_, tc)| tc).unwrap_or(u64::MAX);
            let peer_gone = v.conns.get(c).and_then(|x| x.peer_close).map(|(_, tc, _)| tc).unwrap_or(u64::MAX);
            let stalled = v.reading_since(*c) > *t;
            if closed_by > t + 5_000 && peer_gone > t + 5_000 && v.out.end_ms > t + 5_000 && !stalled {
                vd.fail("C09", "C09.served-while-choked", what.clone(), *seq);
            }
        }
        for k in &kinds {
            vd.probe(k);
        }
        vd.probe_n("blocks_served", served);
        vd.nontrivial = served > 0 || kinds.iter().any(|k| *k != "valid");
        vd.class = hash_of(&(v.plan.peers.len(), kinds));
        let last = v.out.entries.last().map(|e| e.seq).unwrap_or(0);
        for (m, l) in &v.out.panics {
            let who = crate::check::attribute_panic(m, l);
            // a panic while the last thing any connection decoded was a block request belongs to
            // the upload path, wherever it surfaces (connection task or manager)
            let last_is_request = v
                .out
                .entries
                .iter()
                .rev()
                .find_map(|e| match &e.ev {
                    Ev::Decoded { frame, .. } => Some(frame.starts_with("Request")),
                    _ => None,
                })
                .unwrap_or(false);
            if who == "C09" || last_is_request {
                vd.fail("C09", "C09.panic", format!("connection task panicked: {:?} at {}", m, l), last);
            } else if vd.inconclusive.is_none() {
                vd.inconclusive = Some(format!("{} ({} at {})", who, m, l));
            }
        }
        vd
    }
}

// ---------------------------------------------------------------------------------------------
// C08

pub struct C08;

fn announced_id(plan: &Plan, addr: &str) -> Option<Vec<u8>> {
    let p = plan.peers.iter().find(|p| p.addr == addr)?;
    let mut id = p.id.clone();
    for (_, s) in &plan.tracker.steps {
        if let TrackerStep::Good { wrong_id_for, .. } = s {
            if wrong_id_for.contains(&p.name) {
                id[0] ^= 0x20;
                break;
            }
        }
    }
    Some(id)
}

impl Check for C08 {
    fn id(&self) -> &'static str {
        "C08"
    }
    fn profiles(&self) -> Vec<ProfileSpec> {
        vec![ProfileSpec { name: "handshakes", quick: 20_000, thorough: 1_500_000 }]
    }
    fn rule(&self) -> &'static str {
        "profile handshakes: an honest seeder runs first so the client owns data; then incoming and listed peers whose handshake is correct / wrong info-hash / wrong id / wrong protocol string / absent / late (after Bitfield, Interested and Requests for owned pieces) / repeated with another hash, at arbitrary positions of an otherwise honest exchange. Non-trivial: >= 1 connection with a non-standard handshake behaviour was established. Distinct: interleaving hash x multiset of handshake kinds."
    }
    fn assumptions(&self) -> Vec<&'static str> {
        vec!["keep-alive frames are not counted as a reply", "closure is demanded within 60 virtual s of the invalid handshake"]
    }
    fn generate(&self, profile: &str, seed: u64) -> Plan {
        gen::generate(profile, seed).expect("profile")
    }
    fn judge(&self, v: &View) -> Verdict {
        let mut vd = Verdict::default();
        let ih = v.out.torrent.info_hash;
        let own = v.plan.own_id.as_bytes().to_vec();
        // per conn: seq of first valid handshake decoded; seq/time of first invalid one
        let mut valid_hs: BTreeMap<ConnId, u64> = BTreeMap::new();
        let mut invalid_hs: BTreeMap<ConnId, (u64, u64, String)> = BTreeMap::new();
        let mut first_c: BTreeSet<ConnId> = BTreeSet::new();
        let kinds: Vec<String> = v.plan.peers.iter().map(|p| format!("{:?}/{}", p.hs, p.script.iter().filter(|s| matches!(&s.act, crate::plan::Act::Send(Msg::Handshake { .. }))).count())).collect();
        vd.class = hash_of(&kinds);
        let mut wire_hs: BTreeMap<ConnId, Vec<(Vec<u8>, Vec<u8>)>> = BTreeMap::new();
        for TL { seq, t, k } in &v.tl {
            let (seq, now) = (*seq, *t);
            match k {
                TK::P(c, Item::Msg(Msg::Handshake { info_hash, peer_id, .. })) => {
                    wire_hs.entry(*c).or_default().push((info_hash.clone(), peer_id.clone()));
                }
                TK::C(c, m) => {
                    let info = match v.conns.get(c) {
                        Some(i) => i,
                        None => continue,
                    };
                    if !matches!(m, Msg::KeepAlive) && first_c.insert(*c) {
                        // R3: the first thing the client writes (keep-alives aside, as for R1) is its
                        // own exact handshake
                        let ok = match m {
                            Msg::Handshake { pstr, info_hash, peer_id, .. } => pstr.as_slice() == crate::codec::PSTR && info_hash[..] == ih[..] && *peer_id == own,
                            _ => false,
                        };
                        if !ok {
                            vd.fail("C08", "C08.own-handshake", format!("conn {} ({}): first message written is {} instead of the client's handshake for this torrent", c, info.addr, crate::actors::brief(m)), seq);
                        }
                    }
                    if matches!(m, Msg::KeepAlive) {
                        continue;
                    }
                    if info.incoming && !valid_hs.contains_key(c) {
                        vd.fail("C08", "C08.reply-before-handshake", format!("incoming conn {} ({}): client wrote {} before a valid handshake arrived", c, info.addr, crate::actors::brief(m)), seq);
                    }
                    if let Msg::Piece { index, .. } = m {
                        if !valid_hs.contains_key(c) {
                            vd.fail("C08", "C08.data-before-handshake", format!("conn {} ({}): block of piece {} sent without a completed valid handshake", c, info.addr, index), seq);
                        }
                    }
                    if let Some((s0, _, why)) = invalid_hs.get(c) {
                        if seq > *s0 {
                            vd.fail("C08", "C08.write-after-invalid-handshake", format!("conn {} ({}): client wrote {} after an invalid handshake ({})", c, info.addr, crate::actors::brief(m), why), seq);
                        }
                    }
                }
                TK::Raw(i) => match v.ev(*i) {
                    Ev::Decoded { addr, frame, .. } => {
                        let (name, n) = norm_debug(frame);
                        if name != "Handshake" || n.len() != 40 {
                            continue;
                        }
                        let c = match conn_of(v, addr, seq) {
                            Some(c) => c,
                            None => continue,
                        };
                        let info = &v.conns[&c];
                        let h: Vec<u8> = n[..20].iter().map(|x| *x as u8).collect();
                        let id: Vec<u8> = n[20..].iter().map(|x| *x as u8).collect();
                        let mut why = None;
                        // the reference decoder must have seen this very handshake on the wire:
                        // what the client accepted as one may carry another protocol string
                        let on_wire = wire_hs.get(&c).map(|l| l.iter().any(|(a, b)| *a == h && *b == id)).unwrap_or(false);
                        if !on_wire {
                            why = Some("not a BitTorrent handshake on the wire (protocol string)".to_string());
                        } else if h[..] != ih[..] {
                            why = Some("other info-hash".to_string());
                        } else if !info.incoming {
                            if let Some(want) = announced_id(v.plan, addr) {
                                if want != id {
                                    why = Some("peer id differs from the announced one".to_string());
                                }
                            }
                        }
                        match why {
                            None => {
                                valid_hs.entry(c).or_insert(seq);
                            }
                            Some(w) => {
                                vd.probe("invalid_handshake_decoded");
                                invalid_hs.entry(c).or_insert((seq, now, w));
                            }
                        }
                    }
                    _ => {}
                },
                _ => {}
            }
        }
        // closure within 60 s
        for (c, (s0, t0, why)) in &invalid_hs {
            let info = &v.conns[c];
            let closed = info.client_close.map(|(_, t)| t);
            let limit = t0 + 60_000;
            let ok = match closed {
                Some(t) => t <= limit,
                None => v.out.end_ms < limit,
            };
            if !ok {
                vd.fail("C08", "C08.not-closed", format!("conn {} ({}) not closed within 60 s of its invalid handshake ({})", c, info.addr, why), *s0);
            }
            // forgotten: the manager handled the end of this peer (a later entry under the same
            // address belongs to a new dial)
            let killed = v.out.entries.iter().find(|e| e.seq > *s0 && matches!(&e.ev, Ev::KillReq { addr, .. } if *addr == info.addr)).map(|e| e.t_ms);
            let ok = match killed {
                Some(t) => t <= limit,
                None => v.out.end_ms < limit,
            };
            if !ok {
                vd.fail("C08", "C08.not-forgotten", format!("conn {} ({}) still registered 60 s after its invalid handshake ({})", c, info.addr, why), *s0);
            }
        }
        let odd = v.conns.values().filter(|c| c.peer.as_ref().and_then(|n| v.plan.peers.iter().find(|p| &p.name == n)).map(|p| p.hs != crate::plan::Hs::Ok || p.script.iter().any(|s| matches!(&s.act, crate::plan::Act::Send(Msg::Handshake { .. })))).unwrap_or(false)).count();
        vd.nontrivial = odd > 0;
        vd.probe_n("connections_with_odd_handshake", odd as u64);
        if let Some((m, l, who)) = first_panic(v) {
            vd.inconclusive = Some(format!("{} ({} at {})", who, m, l));
        }
        vd
    }
}

// ---------------------------------------------------------------------------------------------
// C11

pub struct C11;

impl Check for C11 {
    fn id(&self) -> &'static str {
        "C11"
    }
    fn profiles(&self) -> Vec<ProfileSpec> {
        vec![
            ProfileSpec { name: "announce", quick: 10_000, thorough: 750_000 },
            ProfileSpec { name: "honest-swarm", quick: 2000, thorough: 75_000 },
            ProfileSpec { name: "stall", quick: 3000, thorough: 200_000 },
        ]
    }
    fn rule(&self) -> &'static str {
        "profile announce: 2-6 seeders so that pieces complete on other connections while 1-6 observed peers (dialling in at random times, choking/unchoking the client at random times) handshake. K = the order in which the manager completed pieces (hook). Non-trivial: a bitfield was sent on a connection while >= 1 and < all pieces were complete, or >= 1 Have was held back while choked. Distinct: interleaving hash x geometry class."
    }
    fn assumptions(&self) -> Vec<&'static str> {
        vec![
            "holding announcements back while choked is permitted, not required",
            "completeness of the announcement run is checked only at the end of runs that settled (no completion or choke change during the last 500 virtual ms)",
            "the stalled-reader / broadcast-lag fault is not enabled in this profile (DESIGN.md 4.4)",
        ]
    }
    fn generate(&self, profile: &str, seed: u64) -> Plan {
        gen::generate(profile, seed).expect("profile")
    }
    fn judge(&self, v: &View) -> Verdict {
        let mut vd = Verdict::default();
        vd.class = geometry_class(v.plan);
        let t = &v.out.torrent;
        let n = t.pieces();
        let mut ver = Verified::start(v);
        let mut k_seq: Vec<(usize, u64, u64)> = Vec::new(); // (index, seq, t)
        struct CS {
            hs_seq: Option<u64>,
            bf: Option<(Vec<bool>, u64)>,
            haves: Vec<usize>,
            peer_choking: bool,
            last_change_t: u64,
        }
        let mut cs: BTreeMap<ConnId, CS> = BTreeMap::new();
        for TL { seq, t: now, k } in &v.tl {
            let (seq, now) = (*seq, *now);
            match k {
                TK::C(c, m) => {
                    let st = cs.entry(*c).or_insert(CS { hs_seq: None, bf: None, haves: vec![], peer_choking: true, last_change_t: 0 });
                    match m {
                        Msg::Handshake { .. } => st.hs_seq = Some(seq),
                        Msg::Bitfield(b) => {
                            let bits = bitfield_bits(b, n);
                            if b.len() != (n + 7) / 8 {
                                vd.fail("C11", "C11.bitfield-size", format!("conn {} bitfield of {} bytes for {} pieces", c, b.len(), n), seq);
                            }
                            for (i, bit) in bits.iter().enumerate() {
                                if *bit && !ver.set.contains(&i) {
                                    vd.fail("C11", "C11.bitfield-unverified", format!("conn {} bitfield marks piece {} which is not verified and stored", c, i), seq);
                                }
                            }
                            // lower bound: everything completed before the client's handshake went out
                            if let Some(hs) = st.hs_seq {
                                for (i, s, _) in &k_seq {
                                    if *s < hs && !bits[*i] {
                                        vd.fail("C11", "C11.bitfield-omits-owned", format!("conn {} bitfield lacks piece {} completed before the handshake", c, i), seq);
                                    }
                                }
                            }
                            let have_n = ver.set.len();
                            if have_n > 0 && have_n < n {
                                vd.probe("bitfield_mid_download");
                                vd.nontrivial = true;
                            }
                            if st.bf.is_some() {
                                vd.probe("second_bitfield");
                            }
                            st.bf = Some((bits, seq));
                        }
                        Msg::Have(i) => {
                            let i = *i as usize;
                            if !ver.set.contains(&i) {
                                vd.fail("C11", "C11.have-unverified", format!("conn {} Have({}) before the piece was verified and stored", c, i), seq);
                            }
                            st.haves.push(i);
                        }
                        _ => {}
                    }
                }
                TK::Raw(i) => {
                    let ev = v.ev(*i);
                    ver.on_event(v, ev);
                    match ev {
                        Ev::PieceDone { index, .. } => k_seq.push((*index, seq, now)),
                        Ev::Decoded { addr, frame, .. } => {
                            let name = norm_debug(frame).0;
                            if name == "Choke" || name == "Unchoke" {
                                if let Some(c) = conn_of(v, addr, seq) {
                                    let st = cs.entry(c).or_insert(CS { hs_seq: None, bf: None, haves: vec![], peer_choking: true, last_change_t: 0 });
                                    st.peer_choking = name == "Choke";
                                    st.last_change_t = now;
                                }
                            }
                        }
                        _ => {}
                    }
                }
                _ => {}
            }
        }
        // announcement runs
        let k_idx: Vec<usize> = k_seq.iter().map(|x| x.0).collect();
        let end = v.out.end_ms;
        let last_done_t = k_seq.last().map(|x| x.2).unwrap_or(0);
        for (c, st) in &cs {
            let info = match v.conns.get(c) {
                Some(i) => i,
                None => continue,
            };
            let (bits, bf_seq) = match &st.bf {
                Some(b) => b.clone(),
                // no bitfield on this connection: the statement does not demand one before a
                // have-announcement, so the run is checked against an empty bitfield
                None => (vec![false; n], u64::MAX),
            };
            // the task subscribed to completions before it connected, so its run may start earlier
            // than the bitfield (redundant but verified announcements); it may not start later
            let hi = k_seq.iter().filter(|x| x.1 < bf_seq).count().min(k_idx.len());
            let mut matched = None;
            for s in (0..=hi).rev() {
                if s + st.haves.len() > k_idx.len() {
                    continue;
                }
                // without a bitfield nothing anchors the start of the run
                if k_idx[s..s + st.haves.len()] == st.haves[..] && (bf_seq == u64::MAX || k_idx[..s].iter().all(|i| bits[*i])) {
                    matched = Some(s);
                    break;
                }
            }
            let last_seq = v.out.entries.last().map(|e| e.seq).unwrap_or(0);
            match matched {
                None => vd.fail(
                    "C11",
                    "C11.have-order",
                    format!(
                        "conn {} ({}): announcements {:?} are not a gap-free run of the completion order {:?} continuing its bitfield {:?}",
                        c,
                        info.addr,
                        st.haves,
                        k_idx,
                        bits.iter().map(|b| if *b { '1' } else { '0' }).collect::<String>()
                    ),
                    last_seq,
                ),
                Some(s) => {
                    let e = s + st.haves.len();
                    let open = info.client_close.is_none() && info.peer_close.is_none();
                    if e < k_idx.len() && st.peer_choking {
                        vd.probe("haves_held_back_while_choked");
                        vd.nontrivial = true;
                    }
                    let settled = end >= last_done_t + 500 && end >= st.last_change_t + 500 && end >= v.reading_since(*c).saturating_add(1000);
                    if open && !st.peer_choking && settled && e < k_idx.len() {
                        vd.fail(
                            "C11",
                            "C11.have-missing",
                            format!("conn {} ({}) is unchoked and idle but announcements for {:?} were never delivered", c, info.addr, &k_idx[e..]),
                            last_seq,
                        );
                    }
                }
            }
        }
        if let Some((m, l, who)) = first_panic(v) {
            vd.inconclusive = Some(format!("{} ({} at {})", who, m, l));
        }
        vd
    }
}
