//! Shim crate named `rand`: the real rand 0.8 with `thread_rng()` served by the run's seeded
//! generator.

pub use rand_real::*;

pub struct SimThreadRng;

impl rand_real::RngCore for SimThreadRng {
    fn next_u32(&mut self) -> u32 {
        world::with(|w| w.rdest_rng.next_u32())
    }
    fn next_u64(&mut self) -> u64 {
        world::with(|w| w.rdest_rng.next_u64())
    }
    fn fill_bytes(&mut self, dest: &mut [u8]) {
        world::with(|w| w.rdest_rng.fill(dest))
    }
    fn try_fill_bytes(&mut self, dest: &mut [u8]) -> Result<(), rand_real::Error> {
        self.fill_bytes(dest);
        Ok(())
    }
}

pub fn thread_rng() -> SimThreadRng {
    world::bump("thread_rng");
    SimThreadRng
}
