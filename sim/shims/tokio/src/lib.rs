//! Shim crate named `tokio`: everything is the real tokio except `net` and `fs`, which are
//! served by the simulated world. rdest's sources are compiled against this crate unchanged.

pub use tokio_real::*;

pub mod net {
    use std::io;
    use std::net::{Ipv4Addr, SocketAddr};

    pub type TcpStream = SimTcpStream;

    /// Newtype so that `TcpStream::connect` exists as an associated function.
    pub struct SimTcpStream(world::SimStream);

    impl SimTcpStream {
        pub async fn connect<A: AsRef<str>>(addr: A) -> io::Result<SimTcpStream> {
            world::connect(addr.as_ref()).await.map(SimTcpStream)
        }

        pub fn peer_addr(&self) -> io::Result<SocketAddr> {
            self.0.peer_addr()
        }
    }

    impl tokio_real::io::AsyncRead for SimTcpStream {
        fn poll_read(
            mut self: std::pin::Pin<&mut Self>,
            cx: &mut std::task::Context<'_>,
            buf: &mut tokio_real::io::ReadBuf<'_>,
        ) -> std::task::Poll<io::Result<()>> {
            std::pin::Pin::new(&mut self.0).poll_read(cx, buf)
        }
    }

    impl tokio_real::io::AsyncWrite for SimTcpStream {
        fn poll_write(
            mut self: std::pin::Pin<&mut Self>,
            cx: &mut std::task::Context<'_>,
            buf: &[u8],
        ) -> std::task::Poll<io::Result<usize>> {
            std::pin::Pin::new(&mut self.0).poll_write(cx, buf)
        }
        fn poll_flush(mut self: std::pin::Pin<&mut Self>, cx: &mut std::task::Context<'_>) -> std::task::Poll<io::Result<()>> {
            std::pin::Pin::new(&mut self.0).poll_flush(cx)
        }
        fn poll_shutdown(
            mut self: std::pin::Pin<&mut Self>,
            cx: &mut std::task::Context<'_>,
        ) -> std::task::Poll<io::Result<()>> {
            std::pin::Pin::new(&mut self.0).poll_shutdown(cx)
        }
    }

    pub struct TcpListener(world::SimListener);

    impl TcpListener {
        pub async fn bind(_addr: (Ipv4Addr, u16)) -> io::Result<TcpListener> {
            world::SimListener::bind().map(TcpListener)
        }

        pub async fn accept(&self) -> io::Result<(TcpStream, SocketAddr)> {
            let (s, a) = self.0.accept().await?;
            Ok((SimTcpStream(s), a))
        }
    }

    /// For the harness (rig A): wrap a free-standing simulated stream.
    pub fn wrap(s: world::SimStream) -> TcpStream {
        SimTcpStream(s)
    }
}

pub mod fs {
    use std::io;
    use std::path::Path;

    async fn maybe_yield() {
        let y = world::with(|w| w.fs_yield_pm > 0 && w.fs_rng.below(1000) < w.fs_yield_pm as u64);
        if y {
            world::bump("fs_yield");
            tokio_real::task::yield_now().await;
        }
    }

    pub async fn read(path: impl AsRef<Path>) -> io::Result<Vec<u8>> {
        maybe_yield().await;
        let p = path.as_ref().to_string_lossy().to_string();
        world::with(|w| w.disk.read_whole(&p))
    }

    pub async fn write(path: impl AsRef<Path>, contents: impl AsRef<[u8]>) -> io::Result<()> {
        maybe_yield().await;
        let p = path.as_ref().to_string_lossy().to_string();
        world::with(|w| w.disk.write_whole(&p, contents.as_ref()))
    }

    pub async fn create_dir_all(path: impl AsRef<Path>) -> io::Result<()> {
        maybe_yield().await;
        let p = path.as_ref().to_string_lossy().to_string();
        world::with(|w| w.disk.mkdir_all(&p))
    }

    pub async fn remove_file(path: impl AsRef<Path>) -> io::Result<()> {
        maybe_yield().await;
        let p = path.as_ref().to_string_lossy().to_string();
        world::with(|w| w.disk.remove_file(&p))
    }

    pub async fn rename(from: impl AsRef<Path>, to: impl AsRef<Path>) -> io::Result<()> {
        maybe_yield().await;
        let (a, b) = (from.as_ref().to_string_lossy().to_string(), to.as_ref().to_string_lossy().to_string());
        world::with(|w| w.disk.rename(&a, &b))
    }

    /// What `metadata` can tell about a simulated file.
    #[derive(Clone, Debug)]
    pub struct Metadata {
        len: u64,
        dir: bool,
    }

    impl Metadata {
        pub fn len(&self) -> u64 {
            self.len
        }
        pub fn is_file(&self) -> bool {
            !self.dir
        }
        pub fn is_dir(&self) -> bool {
            self.dir
        }
    }

    pub async fn metadata(path: impl AsRef<Path>) -> io::Result<Metadata> {
        maybe_yield().await;
        let p = path.as_ref().to_string_lossy().to_string();
        world::with(|w| {
            let abs = w.disk.resolve(&p);
            if let Some(l) = w.disk.len_of(&abs) {
                Ok(Metadata { len: l, dir: false })
            } else if w.disk.dirs.contains(&abs) {
                Ok(Metadata { len: 0, dir: true })
            } else {
                Err(io::Error::new(io::ErrorKind::NotFound, "sim: not found"))
            }
        })
    }

    pub async fn try_exists(path: impl AsRef<Path>) -> io::Result<bool> {
        maybe_yield().await;
        let p = path.as_ref().to_string_lossy().to_string();
        Ok(world::with(|w| w.disk.exists(&p)))
    }

    /// What tokio's own `File` takes per `write` call (its internal buffer limit).
    const MAX_WRITE: usize = 2 * 1024 * 1024;

    /// Simulated `tokio::fs::File`: the subset a piece store is likely to use.
    #[derive(Debug)]
    pub struct File {
        abs: String,
        pos: u64,
    }

    impl File {
        pub async fn create(path: impl AsRef<Path>) -> io::Result<File> {
            maybe_yield().await;
            let p = path.as_ref().to_string_lossy().to_string();
            world::with(|w| w.disk.afile_create(&p)).map(|abs| File { abs, pos: 0 })
        }

        pub async fn open(path: impl AsRef<Path>) -> io::Result<File> {
            maybe_yield().await;
            let p = path.as_ref().to_string_lossy().to_string();
            world::with(|w| w.disk.open(&p)).map(|abs| File { abs, pos: 0 })
        }

        pub async fn sync_all(&self) -> io::Result<()> {
            maybe_yield().await;
            Ok(())
        }

        pub async fn sync_data(&self) -> io::Result<()> {
            maybe_yield().await;
            Ok(())
        }

        pub async fn set_len(&self, size: u64) -> io::Result<()> {
            maybe_yield().await;
            world::with(|w| w.disk.afile_set_len(&self.abs, size))
        }
    }

    impl tokio_real::io::AsyncWrite for File {
        fn poll_write(mut self: std::pin::Pin<&mut Self>, _cx: &mut std::task::Context<'_>, buf: &[u8]) -> std::task::Poll<io::Result<usize>> {
            let (abs, pos) = (self.abs.clone(), self.pos);
            let r = world::with(|w| w.disk.afile_write(&abs, pos, buf, MAX_WRITE));
            if let Ok(n) = &r {
                self.pos += *n as u64;
            }
            std::task::Poll::Ready(r)
        }
        fn poll_flush(self: std::pin::Pin<&mut Self>, _cx: &mut std::task::Context<'_>) -> std::task::Poll<io::Result<()>> {
            std::task::Poll::Ready(Ok(()))
        }
        fn poll_shutdown(self: std::pin::Pin<&mut Self>, _cx: &mut std::task::Context<'_>) -> std::task::Poll<io::Result<()>> {
            std::task::Poll::Ready(Ok(()))
        }
    }

    impl tokio_real::io::AsyncRead for File {
        fn poll_read(mut self: std::pin::Pin<&mut Self>, _cx: &mut std::task::Context<'_>, buf: &mut tokio_real::io::ReadBuf<'_>) -> std::task::Poll<io::Result<()>> {
            let (abs, pos) = (self.abs.clone(), self.pos);
            let dst = buf.initialize_unfilled();
            let r = world::with(|w| w.disk.read_at(&abs, pos, dst));
            match r {
                Ok(n) => {
                    buf.advance(n);
                    self.pos += n as u64;
                    std::task::Poll::Ready(Ok(()))
                }
                Err(e) => std::task::Poll::Ready(Err(e)),
            }
        }
    }

    impl tokio_real::io::AsyncSeek for File {
        fn start_seek(mut self: std::pin::Pin<&mut Self>, position: io::SeekFrom) -> io::Result<()> {
            let len = world::with(|w| w.disk.len_of(&self.abs)).unwrap_or(0);
            self.pos = match position {
                io::SeekFrom::Start(p) => p,
                io::SeekFrom::End(d) => (len as i64 + d).max(0) as u64,
                io::SeekFrom::Current(d) => (self.pos as i64 + d).max(0) as u64,
            };
            Ok(())
        }
        fn poll_complete(self: std::pin::Pin<&mut Self>, _cx: &mut std::task::Context<'_>) -> std::task::Poll<io::Result<u64>> {
            std::task::Poll::Ready(Ok(self.pos))
        }
    }
}

/// `tokio::sync` with the three channel kinds rdest uses wrapped so that the simulator can inject
/// seeded yields right before a send or a receive (a task that is "slow" at that point lets every
/// other runnable task go first). Semantics are otherwise those of the real channels.
pub mod sync {
    pub use tokio_real::sync::*;

    async fn maybe_yield() {
        if world::sched_yield() {
            tokio_real::task::yield_now().await;
        }
    }

    pub mod mpsc {
        use super::maybe_yield;
        use std::fmt;
        pub use tokio_real::sync::mpsc::error;
        use tokio_real::sync::mpsc as real;

        pub struct Sender<T>(real::Sender<T>);

        impl<T> Clone for Sender<T> {
            fn clone(&self) -> Self {
                Sender(self.0.clone())
            }
        }

        impl<T> fmt::Debug for Sender<T> {
            fn fmt(&self, f: &mut fmt::Formatter<'_>) -> fmt::Result {
                self.0.fmt(f)
            }
        }

        impl<T> Sender<T> {
            pub async fn send(&self, value: T) -> Result<(), error::SendError<T>> {
                maybe_yield().await;
                self.0.send(value).await
            }

            pub fn try_send(&self, value: T) -> Result<(), error::TrySendError<T>> {
                self.0.try_send(value)
            }

            pub async fn send_timeout(&self, value: T, timeout: std::time::Duration) -> Result<(), error::SendTimeoutError<T>> {
                maybe_yield().await;
                self.0.send_timeout(value, timeout).await
            }

            pub async fn closed(&self) {
                self.0.closed().await
            }

            pub fn is_closed(&self) -> bool {
                self.0.is_closed()
            }

            pub fn capacity(&self) -> usize {
                self.0.capacity()
            }

            pub fn max_capacity(&self) -> usize {
                self.0.max_capacity()
            }
        }

        pub struct Receiver<T>(real::Receiver<T>);

        impl<T> fmt::Debug for Receiver<T> {
            fn fmt(&self, f: &mut fmt::Formatter<'_>) -> fmt::Result {
                self.0.fmt(f)
            }
        }

        impl<T> Receiver<T> {
            /// Cancel-safe like the real one: the yield happens before anything is taken.
            pub async fn recv(&mut self) -> Option<T> {
                maybe_yield().await;
                self.0.recv().await
            }

            pub fn try_recv(&mut self) -> Result<T, error::TryRecvError> {
                self.0.try_recv()
            }

            pub fn close(&mut self) {
                self.0.close()
            }

            pub fn len(&self) -> usize {
                self.0.len()
            }

            pub fn is_empty(&self) -> bool {
                self.0.is_empty()
            }
        }

        pub fn channel<T>(buffer: usize) -> (Sender<T>, Receiver<T>) {
            let (tx, rx) = real::channel(world::chan_cap(buffer));
            (Sender(tx), Receiver(rx))
        }
    }

    pub mod oneshot {
        use std::fmt;
        use std::future::Future;
        use std::pin::Pin;
        use std::task::{Context, Poll};
        pub use tokio_real::sync::oneshot::error;
        use tokio_real::sync::oneshot as real;

        pub struct Sender<T>(real::Sender<T>);

        impl<T> fmt::Debug for Sender<T> {
            fn fmt(&self, f: &mut fmt::Formatter<'_>) -> fmt::Result {
                f.write_str("oneshot::Sender")
            }
        }

        impl<T> Sender<T> {
            pub fn send(self, value: T) -> Result<(), T> {
                self.0.send(value)
            }

            pub fn is_closed(&self) -> bool {
                self.0.is_closed()
            }

            pub async fn closed(&mut self) {
                self.0.closed().await
            }
        }

        pub struct Receiver<T> {
            inner: real::Receiver<T>,
            first: bool,
        }

        impl<T> fmt::Debug for Receiver<T> {
            fn fmt(&self, f: &mut fmt::Formatter<'_>) -> fmt::Result {
                f.write_str("oneshot::Receiver")
            }
        }

        impl<T> Future for Receiver<T> {
            type Output = Result<T, error::RecvError>;
            fn poll(mut self: Pin<&mut Self>, cx: &mut Context<'_>) -> Poll<Self::Output> {
                if self.first {
                    self.first = false;
                    if world::sched_yield() {
                        cx.waker().wake_by_ref();
                        return Poll::Pending;
                    }
                }
                Pin::new(&mut self.inner).poll(cx)
            }
        }

        pub fn channel<T>() -> (Sender<T>, Receiver<T>) {
            let (tx, rx) = real::channel();
            (Sender(tx), Receiver { inner: rx, first: true })
        }
    }

    pub mod broadcast {
        use super::maybe_yield;
        use std::fmt;
        pub use tokio_real::sync::broadcast::error;
        use tokio_real::sync::broadcast as real;

        pub struct Sender<T>(real::Sender<T>);

        impl<T> Clone for Sender<T> {
            fn clone(&self) -> Self {
                Sender(self.0.clone())
            }
        }

        impl<T> fmt::Debug for Sender<T> {
            fn fmt(&self, f: &mut fmt::Formatter<'_>) -> fmt::Result {
                f.write_str("broadcast::Sender")
            }
        }

        impl<T: Clone> Sender<T> {
            pub fn send(&self, value: T) -> Result<usize, error::SendError<T>> {
                self.0.send(value)
            }

            pub fn subscribe(&self) -> Receiver<T> {
                Receiver(self.0.subscribe())
            }

            pub fn receiver_count(&self) -> usize {
                self.0.receiver_count()
            }

            pub fn len(&self) -> usize {
                self.0.len()
            }

            pub fn is_empty(&self) -> bool {
                self.0.is_empty()
            }
        }

        pub struct Receiver<T>(real::Receiver<T>);

        impl<T> fmt::Debug for Receiver<T> {
            fn fmt(&self, f: &mut fmt::Formatter<'_>) -> fmt::Result {
                f.write_str("broadcast::Receiver")
            }
        }

        impl<T: Clone> Receiver<T> {
            /// Cancel-safe like the real one: the yield happens before anything is taken.
            pub async fn recv(&mut self) -> Result<T, error::RecvError> {
                maybe_yield().await;
                self.0.recv().await
            }

            pub fn try_recv(&mut self) -> Result<T, error::TryRecvError> {
                self.0.try_recv()
            }

            pub fn resubscribe(&self) -> Receiver<T> {
                Receiver(self.0.resubscribe())
            }

            pub fn len(&self) -> usize {
                self.0.len()
            }

            pub fn is_empty(&self) -> bool {
                self.0.is_empty()
            }
        }

        pub fn channel<T: Clone>(capacity: usize) -> (Sender<T>, Receiver<T>) {
            let (tx, rx) = real::channel(capacity);
            (Sender(tx), Receiver(rx))
        }
    }
}
