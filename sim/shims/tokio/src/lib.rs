//! Shim crate named `tokio`: everything is the real tokio except `net` and `fs`, which are
//! served by the simulated world. rdest's sources are compiled against this crate unchanged.

pub use tokio_real::*;

pub mod net {
    use std::io;
    use std::net::{Ipv4Addr, SocketAddr};

    pub type TcpStream = SimTcpStream;

    /// Newtype so that `TcpStream::connect` exists as an associated function.
    pub struct SimTcpStream(world::SimStream);

    impl SimTcpStream {
        pub async fn connect<A: AsRef<str>>(addr: A) -> io::Result<SimTcpStream> {
            world::connect(addr.as_ref()).await.map(SimTcpStream)
        }

        pub fn peer_addr(&self) -> io::Result<SocketAddr> {
            self.0.peer_addr()
        }
    }

    impl tokio_real::io::AsyncRead for SimTcpStream {
        fn poll_read(
            mut self: std::pin::Pin<&mut Self>,
            cx: &mut std::task::Context<'_>,
            buf: &mut tokio_real::io::ReadBuf<'_>,
        ) -> std::task::Poll<io::Result<()>> {
            std::pin::Pin::new(&mut self.0).poll_read(cx, buf)
        }
    }

    impl tokio_real::io::AsyncWrite for SimTcpStream {
        fn poll_write(
            mut self: std::pin::Pin<&mut Self>,
            cx: &mut std::task::Context<'_>,
            buf: &[u8],
        ) -> std::task::Poll<io::Result<usize>> {
            std::pin::Pin::new(&mut self.0).poll_write(cx, buf)
        }
        fn poll_flush(mut self: std::pin::Pin<&mut Self>, cx: &mut std::task::Context<'_>) -> std::task::Poll<io::Result<()>> {
            std::pin::Pin::new(&mut self.0).poll_flush(cx)
        }
        fn poll_shutdown(
            mut self: std::pin::Pin<&mut Self>,
            cx: &mut std::task::Context<'_>,
        ) -> std::task::Poll<io::Result<()>> {
            std::pin::Pin::new(&mut self.0).poll_shutdown(cx)
        }
    }

    pub struct TcpListener(world::SimListener);

    impl TcpListener {
        pub async fn bind(_addr: (Ipv4Addr, u16)) -> io::Result<TcpListener> {
            world::SimListener::bind().map(TcpListener)
        }

        pub async fn accept(&self) -> io::Result<(TcpStream, SocketAddr)> {
            let (s, a) = self.0.accept().await?;
            Ok((SimTcpStream(s), a))
        }
    }

    /// For the harness (rig A): wrap a free-standing simulated stream.
    pub fn wrap(s: world::SimStream) -> TcpStream {
        SimTcpStream(s)
    }
}

pub mod fs {
    use std::io;
    use std::path::Path;

    async fn maybe_yield() {
        let y = world::with(|w| w.fs_yield_pm > 0 && w.fs_rng.below(1000) < w.fs_yield_pm as u64);
        if y {
            world::bump("fs_yield");
            tokio_real::task::yield_now().await;
        }
    }

    pub async fn read(path: impl AsRef<Path>) -> io::Result<Vec<u8>> {
        maybe_yield().await;
        let p = path.as_ref().to_string_lossy().to_string();
        world::with(|w| w.disk.read_whole(&p))
    }

    pub async fn write(path: impl AsRef<Path>, contents: impl AsRef<[u8]>) -> io::Result<()> {
        maybe_yield().await;
        let p = path.as_ref().to_string_lossy().to_string();
        world::with(|w| w.disk.write_whole(&p, contents.as_ref()))
    }
}
