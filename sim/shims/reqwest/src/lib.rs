//! Shim crate named `reqwest`: the real `RequestBuilder` still composes the URL; the simulated
//! tracker answers; the real `Response` type carries the scripted status/body to rdest's
//! `parse_resp`.

pub use reqwest_real::*;

use std::cell::RefCell;

thread_local! {
    static REAL: RefCell<Option<reqwest_real::Client>> = const { RefCell::new(None) };
}

fn real_client() -> reqwest_real::Client {
    REAL.with(|c| {
        let mut c = c.borrow_mut();
        if c.is_none() {
            *c = Some(reqwest_real::Client::new());
        }
        c.as_ref().unwrap().clone()
    })
}

#[derive(Clone)]
pub struct Client {
    real: reqwest_real::Client,
    timeout: Option<std::time::Duration>,
}

impl Default for Client {
    fn default() -> Self {
        Client::new()
    }
}

impl Client {
    pub fn new() -> Client {
        Client { real: real_client(), timeout: None }
    }

    pub fn builder() -> ClientBuilder {
        ClientBuilder { timeout: None }
    }

    pub fn get<U: reqwest_real::IntoUrl>(&self, url: U) -> SimRequestBuilder {
        SimRequestBuilder { real: self.real.get(url), timeout: self.timeout }
    }
}

/// The settings a tracker client is likely to touch; only the timeout matters to the simulation
/// (a reply that takes longer is lost and the request fails when the timeout expires).
pub struct ClientBuilder {
    timeout: Option<std::time::Duration>,
}

impl ClientBuilder {
    pub fn user_agent<V: AsRef<str>>(self, _value: V) -> ClientBuilder {
        self
    }
    pub fn timeout(mut self, timeout: std::time::Duration) -> ClientBuilder {
        self.timeout = Some(timeout);
        self
    }
    pub fn connect_timeout(self, _timeout: std::time::Duration) -> ClientBuilder {
        self
    }
    pub fn pool_idle_timeout<D: Into<Option<std::time::Duration>>>(self, _val: D) -> ClientBuilder {
        self
    }
    pub fn default_headers(self, _headers: reqwest_real::header::HeaderMap) -> ClientBuilder {
        self
    }
    pub fn tcp_nodelay(self, _enabled: bool) -> ClientBuilder {
        self
    }
    pub fn no_proxy(self) -> ClientBuilder {
        self
    }
    pub fn build(self) -> std::result::Result<Client, reqwest_real::Error> {
        Ok(Client { real: real_client(), timeout: self.timeout })
    }
}

pub struct SimRequestBuilder {
    real: reqwest_real::RequestBuilder,
    timeout: Option<std::time::Duration>,
}

fn transport_error() -> reqwest_real::Error {
    // a genuine reqwest::Error: building a request for an unparsable URL fails
    real_client().get("http://[bad").build().unwrap_err()
}

impl SimRequestBuilder {
    pub fn query<T: serde::Serialize + ?Sized>(self, query: &T) -> SimRequestBuilder {
        SimRequestBuilder { real: self.real.query(query), timeout: self.timeout }
    }

    pub fn header<K, V>(self, key: K, value: V) -> SimRequestBuilder
    where
        reqwest_real::header::HeaderName: TryFrom<K>,
        <reqwest_real::header::HeaderName as TryFrom<K>>::Error: Into<http::Error>,
        reqwest_real::header::HeaderValue: TryFrom<V>,
        <reqwest_real::header::HeaderValue as TryFrom<V>>::Error: Into<http::Error>,
    {
        SimRequestBuilder { real: self.real.header(key, value), timeout: self.timeout }
    }

    pub fn timeout(self, timeout: std::time::Duration) -> SimRequestBuilder {
        SimRequestBuilder { real: self.real, timeout: Some(timeout) }
    }

    pub async fn send(self) -> std::result::Result<reqwest_real::Response, reqwest_real::Error> {
        let req = self.real.build()?;
        let url = req.url().as_str().to_string();
        let (n, lat, outcome) = world::with(|w| w.tracker.announce(&url));
        if let Some(t) = self.timeout {
            if std::time::Duration::from_millis(lat) > t {
                tokio_real::time::sleep(t).await;
                let label = world::with(|w| w.tracker.label(n));
                world::log(world::Ev::TrackerReply { n, kind: format!("{} (lost: client timeout)", label) });
                world::bump("tracker_client_timeout");
                return Err(transport_error());
            }
        }
        if lat > 0 {
            tokio_real::time::sleep(std::time::Duration::from_millis(lat)).await;
        }
        let label = world::with(|w| w.tracker.label(n));
        world::log(world::Ev::TrackerReply { n, kind: label });
        match outcome {
            world::TrackerOutcome::Refused => {
                world::bump("tracker_refused");
                Err(transport_error())
            }
            world::TrackerOutcome::Http(code, body) => {
                let resp = http::Response::builder().status(code).body(body).unwrap();
                Ok(reqwest_real::Response::from(resp))
            }
        }
    }
}
