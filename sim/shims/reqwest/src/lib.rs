//! Shim crate named `reqwest`: the real `RequestBuilder` still composes the URL; the simulated
//! tracker answers; the real `Response` type carries the scripted status/body to rdest's
//! `parse_resp`.

pub use reqwest_real::*;

use std::cell::RefCell;

thread_local! {
    static REAL: RefCell<Option<reqwest_real::Client>> = const { RefCell::new(None) };
}

fn real_client() -> reqwest_real::Client {
    REAL.with(|c| {
        let mut c = c.borrow_mut();
        if c.is_none() {
            *c = Some(reqwest_real::Client::new());
        }
        c.as_ref().unwrap().clone()
    })
}

pub struct Client {
    real: reqwest_real::Client,
}

impl Client {
    pub fn new() -> Client {
        Client { real: real_client() }
    }

    pub fn get<U: reqwest_real::IntoUrl>(&self, url: U) -> SimRequestBuilder {
        SimRequestBuilder { real: self.real.get(url) }
    }
}

pub struct SimRequestBuilder {
    real: reqwest_real::RequestBuilder,
}

fn transport_error() -> reqwest_real::Error {
    // a genuine reqwest::Error: building a request for an unparsable URL fails
    real_client().get("http://[bad").build().unwrap_err()
}

impl SimRequestBuilder {
    pub fn query<T: serde::Serialize + ?Sized>(self, query: &T) -> SimRequestBuilder {
        SimRequestBuilder { real: self.real.query(query) }
    }

    pub async fn send(self) -> std::result::Result<reqwest_real::Response, reqwest_real::Error> {
        let req = self.real.build()?;
        let url = req.url().as_str().to_string();
        let (n, lat, outcome) = world::with(|w| w.tracker.announce(&url));
        if lat > 0 {
            tokio_real::time::sleep(std::time::Duration::from_millis(lat)).await;
        }
        let label = world::with(|w| w.tracker.label(n));
        world::log(world::Ev::TrackerReply { n, kind: label });
        match outcome {
            world::TrackerOutcome::Refused => {
                world::bump("tracker_refused");
                Err(transport_error())
            }
            world::TrackerOutcome::Http(code, body) => {
                let resp = http::Response::builder().status(code).body(body).unwrap();
                Ok(reqwest_real::Response::from(resp))
            }
        }
    }
}
