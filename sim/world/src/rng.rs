//! Seeded generators. One master integer decides everything; every consumer gets its own
//! sub-stream keyed by a stable name so that removing a consumer does not shift the others.

#[derive(Clone, Debug)]
pub struct Rng64 {
    s: u64,
}

fn mix(mut z: u64) -> u64 {
    z = (z ^ (z >> 30)).wrapping_mul(0xBF58_476D_1CE4_E5B9);
    z = (z ^ (z >> 27)).wrapping_mul(0x94D0_49BB_1331_11EB);
    z ^ (z >> 31)
}

pub fn hash_name(name: &str) -> u64 {
    let mut h: u64 = 0xcbf2_9ce4_8422_2325;
    for b in name.as_bytes() {
        h ^= *b as u64;
        h = h.wrapping_mul(0x0000_0100_0000_01B3);
    }
    mix(h)
}

impl Rng64 {
    pub fn new(seed: u64) -> Rng64 {
        Rng64 { s: mix(seed ^ 0x9E37_79B9_7F4A_7C15) }
    }

    /// Independent stream for `name` under master `seed`.
    pub fn sub(seed: u64, name: &str) -> Rng64 {
        Rng64::new(mix(seed).wrapping_add(hash_name(name)))
    }

    pub fn next_u64(&mut self) -> u64 {
        self.s = self.s.wrapping_add(0x9E37_79B9_7F4A_7C15);
        mix(self.s)
    }

    pub fn next_u32(&mut self) -> u32 {
        (self.next_u64() >> 32) as u32
    }

    /// Uniform in [0, n). n == 0 yields 0.
    pub fn below(&mut self, n: u64) -> u64 {
        if n == 0 {
            return 0;
        }
        // multiply-shift; bias is irrelevant here
        ((self.next_u64() as u128 * n as u128) >> 64) as u64
    }

    /// Uniform in [lo, hi] inclusive.
    pub fn range(&mut self, lo: u64, hi: u64) -> u64 {
        if hi <= lo {
            return lo;
        }
        lo + self.below(hi - lo + 1)
    }

    pub fn usize_below(&mut self, n: usize) -> usize {
        self.below(n as u64) as usize
    }

    /// True with probability num/den.
    pub fn chance(&mut self, num: u64, den: u64) -> bool {
        self.below(den) < num
    }

    pub fn pick<'a, T>(&mut self, xs: &'a [T]) -> &'a T {
        &xs[self.usize_below(xs.len())]
    }

    pub fn shuffle<T>(&mut self, xs: &mut [T]) {
        for i in (1..xs.len()).rev() {
            let j = self.usize_below(i + 1);
            xs.swap(i, j);
        }
    }

    pub fn fill(&mut self, buf: &mut [u8]) {
        for chunk in buf.chunks_mut(8) {
            let v = self.next_u64().to_le_bytes();
            chunk.copy_from_slice(&v[..chunk.len()]);
        }
    }

    pub fn bytes(&mut self, n: usize) -> Vec<u8> {
        let mut v = vec![0u8; n];
        self.fill(&mut v);
        v
    }
}
