//! The simulated world shared by the shim crates (tokio::net, tokio::fs, rand, reqwest) and the
//! harness. One world per run, stored in a thread-local: every run is single-threaded
//! (tokio current_thread runtime), so the thread-local is never contended and never held across
//! an `.await`.

pub mod rng;

use rng::Rng64;
use std::cell::RefCell;
use std::collections::{BTreeMap, BTreeSet, VecDeque};
use std::hash::{Hash, Hasher};
use std::io;
use std::net::SocketAddr;
use std::pin::Pin;
use std::sync::{Arc, Mutex};
use std::task::{Context, Poll, Waker};
use tokio::io::{AsyncRead, AsyncWrite, ReadBuf};
use tokio::sync::mpsc;
use tokio::time::Instant;

pub type ConnId = u32;

// ---------------------------------------------------------------------------------------------
// Events

#[derive(Clone, Copy, Debug, Hash, PartialEq, Eq)]
pub enum CloseKind {
    Fin,
    Rst,
}

#[derive(Clone, Copy, Debug, Hash, PartialEq, Eq)]
pub enum Side {
    Client,
    Peer,
}

#[derive(Clone, Debug, Hash, PartialEq, Eq)]
pub enum DialOutcome {
    Accepted,
    Refused,
    Timeout,
}

#[derive(Clone, Debug, Hash, PartialEq, Eq)]
pub enum DiskOp {
    /// tokio::fs::write (whole file)
    Write,
    /// tokio::fs::read (whole file)
    Read,
    /// extractor: File::create
    Create,
    /// extractor: File::open
    Open,
    /// extractor: write into a created file (append at position)
    Append,
    /// extractor: create_dir_all
    Mkdir,
    /// tokio::fs::File (create / write / set_len) or a torn whole-file write: the file now holds
    /// `data`; not a piece store by itself
    FileState,
    /// tokio::fs::remove_file / rename source
    Remove,
}

#[derive(Clone, Debug, Hash, PartialEq, Eq)]
pub struct PeerSnap {
    pub addr: String,
    pub id: Option<[u8; 20]>,
    pub pieces: Vec<bool>,
    pub piece_index: Option<usize>,
    pub am_interested: bool,
    pub am_choked: bool,
    pub interested: bool,
    pub choked: bool,
    pub optimistic: bool,
    pub download_rate: Option<u32>,
    pub uploaded_rate: Option<u32>,
}

/// status: -1 = Have, 0 = Missing, n>0 = Reserved(n)
#[derive(Clone, Debug, Hash, PartialEq, Eq, Default)]
pub struct Snap {
    pub status: Vec<i64>,
    pub peers: Vec<PeerSnap>,
    pub candidates: usize,
}

#[derive(Clone, Debug, Hash, PartialEq, Eq)]
pub enum Ev {
    Dial { conn: Option<ConnId>, addr: String, outcome: DialOutcome },
    DialIn { conn: Option<ConnId>, from: String, accepted: bool },
    ClientWrite { conn: ConnId, data: Vec<u8> },
    ClientRead { conn: ConnId, n: usize, eof: bool, err: bool },
    PeerWrite { conn: ConnId, data: Vec<u8> },
    PeerRead { conn: ConnId, n: usize },
    Close { conn: ConnId, by: Side, kind: CloseKind },
    Decoded { addr: String, frame: String, consumed: usize },
    RecvErr { addr: String, err: String },
    Buffered { addr: String, len: usize },
    Assigned { addr: String, index: usize, len: usize },
    Snapshot(Snap),
    Pick { addr: String, chosen: Option<usize>, snap: Snap },
    PieceDone { addr: String, index: usize },
    Rotation { rates: Vec<(String, u32)>, new_optimistic: Vec<String>, map: Vec<(String, bool)>, snap: Snap },
    KillReq { addr: String, reason: String },
    Disk { op: DiskOp, raw: String, path: String, ok: bool, data: Vec<u8>, len: usize },
    Announce { n: u64, url: String },
    TrackerReply { n: u64, kind: String },
    Panic { msg: String, loc: String },
    Fault { kind: String, detail: String },
    Note { who: String, what: String },
}

#[derive(Clone, Debug)]
pub struct Entry {
    pub seq: u64,
    pub t_ms: u64,
    pub ev: Ev,
}

fn hexs(b: &[u8]) -> String {
    let mut s = String::new();
    for x in b.iter().take(24) {
        s.push_str(&format!("{:02x}", x));
    }
    if b.len() > 24 {
        s.push_str("..");
    }
    s
}

impl Entry {
    /// Short human-readable rendering (byte strings abbreviated) for replay files.
    pub fn render(&self) -> String {
        let body = match &self.ev {
            Ev::ClientWrite { conn, data } => format!("ClientWrite conn={} len={} {}", conn, data.len(), hexs(data)),
            Ev::PeerWrite { conn, data } => format!("PeerWrite conn={} len={} {}", conn, data.len(), hexs(data)),
            Ev::Disk { op, raw, path, ok, data, len } => {
                format!("Disk {:?} raw={:?} path={:?} ok={} len={} {}", op, raw, path, ok, len, hexs(data))
            }
            Ev::Snapshot(s) => format!("Snapshot {}", render_snap(s)),
            Ev::Pick { addr, chosen, snap } => format!("Pick addr={} chosen={:?} {}", addr, chosen, render_snap(snap)),
            Ev::Rotation { rates, new_optimistic, map, snap } => format!(
                "Rotation rates={:?} new_opt={:?} map={:?} {}",
                rates,
                new_optimistic,
                map,
                render_snap(snap)
            ),
            other => format!("{:?}", other),
        };
        format!("#{} t={}ms {}", self.seq, self.t_ms, body)
    }
}

pub fn render_snap(s: &Snap) -> String {
    let st: String = s
        .status
        .iter()
        .map(|x| match x {
            -1 => "H".to_string(),
            0 => ".".to_string(),
            n => format!("{}", n),
        })
        .collect::<Vec<_>>()
        .join("");
    let peers: Vec<String> = s
        .peers
        .iter()
        .map(|p| {
            format!(
                "{}[{}{}{}{}{} piece={:?} has={}]",
                p.addr,
                if p.am_choked { "c" } else { "u" },
                if p.optimistic { "o" } else { "" },
                if p.am_interested { "I" } else { "i" },
                if p.choked { "C" } else { "U" },
                if p.interested { "N" } else { "n" },
                p.piece_index,
                p.pieces.iter().map(|b| if *b { '1' } else { '0' }).collect::<String>()
            )
        })
        .collect();
    format!("status={} peers={}", st, peers.join(" "))
}

/// FNV-1a 64-bit, used as the deterministic hasher for event-log digests.
pub struct Fnv(pub u64);
impl Default for Fnv {
    fn default() -> Self {
        Fnv(0xcbf2_9ce4_8422_2325)
    }
}
impl Hasher for Fnv {
    fn finish(&self) -> u64 {
        self.0
    }
    fn write(&mut self, bytes: &[u8]) {
        for b in bytes {
            self.0 ^= *b as u64;
            self.0 = self.0.wrapping_mul(0x0000_0100_0000_01B3);
        }
    }
}

pub fn fnv(bytes: &[u8]) -> u64 {
    let mut h = Fnv::default();
    h.write(bytes);
    h.finish()
}

#[derive(Default)]
pub struct Log {
    pub entries: Vec<Entry>,
    pub start: Option<Instant>,
    pub digest: u64,
    pub enabled: bool,
    pub max_entries: usize,
    pub overflow: bool,
}

impl Log {
    pub fn now_ms(&self) -> u64 {
        match self.start {
            Some(s) => Instant::now().saturating_duration_since(s).as_millis() as u64,
            None => 0,
        }
    }

    pub fn push(&mut self, ev: Ev) {
        if !self.enabled {
            return;
        }
        if self.entries.len() >= self.max_entries {
            self.overflow = true;
            return;
        }
        let t_ms = self.now_ms();
        let seq = self.entries.len() as u64;
        let mut h = Fnv(self.digest ^ 0x9E37_79B9_7F4A_7C15);
        t_ms.hash(&mut h);
        ev.hash(&mut h);
        self.digest = h.finish();
        self.entries.push(Entry { seq, t_ms, ev });
    }
}

// ---------------------------------------------------------------------------------------------
// Network

pub struct Pipe {
    pub segs: VecDeque<Vec<u8>>,
    pub bytes: usize,
    /// writer closed this direction
    pub wclosed: Option<CloseKind>,
    /// reader dropped / reset: writes fail
    pub rgone: bool,
    pub rwaker: Option<Waker>,
    pub wwaker: Option<Waker>,
    /// writer blocks while `bytes >= cap`
    pub cap: usize,
}

impl Pipe {
    fn new(cap: usize) -> Pipe {
        Pipe { segs: VecDeque::new(), bytes: 0, wclosed: None, rgone: false, rwaker: None, wwaker: None, cap }
    }
    fn wake_reader(&mut self) {
        if let Some(w) = self.rwaker.take() {
            w.wake();
        }
    }
    fn wake_writer(&mut self) {
        if let Some(w) = self.wwaker.take() {
            w.wake();
        }
    }
}

pub type PipeRef = Arc<Mutex<Pipe>>;

/// Per-connection perturbation knobs for the client side of a connection (per-mille rates).
#[derive(Clone, Debug, Default)]
pub struct NetKnobs {
    pub short_read_pm: u32,
    pub short_write_pm: u32,
    pub yield_pm: u32,
    pub seed: u64,
}

/// The stream rdest sees in place of `tokio::net::TcpStream`.
pub struct SimStream {
    pub conn: ConnId,
    rx: PipeRef,
    tx: PipeRef,
    peer: SocketAddr,
    rng: Rng64,
    knobs: NetKnobs,
    eof_reads: u32,
}

fn inject_yield(rng: &mut Rng64, pm: u32, cx: &mut Context<'_>) -> bool {
    if pm > 0 && rng.below(1000) < pm as u64 {
        bump("yield");
        cx.waker().wake_by_ref();
        return true;
    }
    false
}

impl SimStream {
    pub fn peer_addr(&self) -> io::Result<SocketAddr> {
        Ok(self.peer)
    }
}

impl AsyncRead for SimStream {
    fn poll_read(mut self: Pin<&mut Self>, cx: &mut Context<'_>, buf: &mut ReadBuf<'_>) -> Poll<io::Result<()>> {
        let this = &mut *self;
        if inject_yield(&mut this.rng, this.knobs.yield_pm, cx) {
            return Poll::Pending;
        }
        let mut p = this.rx.lock().unwrap();
        if p.wclosed == Some(CloseKind::Rst) {
            drop(p);
            log(Ev::ClientRead { conn: this.conn, n: 0, eof: false, err: true });
            return Poll::Ready(Err(io::Error::new(io::ErrorKind::ConnectionReset, "sim rst")));
        }
        if buf.remaining() == 0 {
            return Poll::Ready(Ok(()));
        }
        if let Some(mut seg) = p.segs.pop_front() {
            let mut n = seg.len().min(buf.remaining());
            if n > 1 && this.knobs.short_read_pm > 0 && this.rng.below(1000) < this.knobs.short_read_pm as u64 {
                n = 1 + this.rng.usize_below(n - 1);
                bump("short_read");
            }
            buf.put_slice(&seg[..n]);
            if n < seg.len() {
                seg.drain(..n);
                p.segs.push_front(seg);
            }
            p.bytes -= n;
            p.wake_writer();
            drop(p);
            log(Ev::ClientRead { conn: this.conn, n, eof: false, err: false });
            return Poll::Ready(Ok(()));
        }
        if p.wclosed == Some(CloseKind::Fin) {
            drop(p);
            this.eof_reads += 1;
            // a reader that keeps reading after the end of the stream spins forever inside one
            // poll; nothing in a single-threaded simulation could interrupt it, so make it visible
            if this.eof_reads > 1000 {
                panic!("busy loop: more than 1000 reads after the end of the stream on connection {}", this.conn);
            }
            log(Ev::ClientRead { conn: this.conn, n: 0, eof: true, err: false });
            return Poll::Ready(Ok(()));
        }
        p.rwaker = Some(cx.waker().clone());
        Poll::Pending
    }
}

impl AsyncWrite for SimStream {
    fn poll_write(mut self: Pin<&mut Self>, cx: &mut Context<'_>, data: &[u8]) -> Poll<io::Result<usize>> {
        let this = &mut *self;
        if inject_yield(&mut this.rng, this.knobs.yield_pm, cx) {
            return Poll::Pending;
        }
        if data.is_empty() {
            return Poll::Ready(Ok(0));
        }
        let mut p = this.tx.lock().unwrap();
        if p.rgone || p.wclosed.is_some() {
            drop(p);
            bump("client_write_error");
            return Poll::Ready(Err(io::Error::new(io::ErrorKind::BrokenPipe, "sim peer gone")));
        }
        if p.bytes >= p.cap {
            p.wwaker = Some(cx.waker().clone());
            bump("client_write_blocked");
            return Poll::Pending;
        }
        let mut n = data.len();
        if n > 1 && this.knobs.short_write_pm > 0 && this.rng.below(1000) < this.knobs.short_write_pm as u64 {
            n = 1 + this.rng.usize_below(n - 1);
            bump("short_write");
        }
        p.segs.push_back(data[..n].to_vec());
        p.bytes += n;
        p.wake_reader();
        drop(p);
        log(Ev::ClientWrite { conn: this.conn, data: data[..n].to_vec() });
        Poll::Ready(Ok(n))
    }
    fn poll_flush(self: Pin<&mut Self>, _cx: &mut Context<'_>) -> Poll<io::Result<()>> {
        Poll::Ready(Ok(()))
    }
    fn poll_shutdown(self: Pin<&mut Self>, _cx: &mut Context<'_>) -> Poll<io::Result<()>> {
        Poll::Ready(Ok(()))
    }
}

impl Drop for SimStream {
    fn drop(&mut self) {
        {
            let mut p = self.tx.lock().unwrap();
            if p.wclosed.is_none() {
                p.wclosed = Some(CloseKind::Fin);
            }
            p.wake_reader();
        }
        {
            let mut p = self.rx.lock().unwrap();
            p.rgone = true;
            p.wake_writer();
        }
        try_log(Ev::Close { conn: self.conn, by: Side::Client, kind: CloseKind::Fin });
    }
}

#[derive(Debug, PartialEq)]
pub enum ReadOutcome {
    Data(Vec<u8>),
    Eof,
    Reset,
}

/// The harness side of a connection.
pub struct PeerEnd {
    pub conn: ConnId,
    /// address the client knows this peer by
    pub addr: String,
    pub to_client: PipeRef,
    pub from_client: PipeRef,
    closed: bool,
}

impl PeerEnd {
    /// Make `seg` readable by the client now. Returns false if the client side is gone.
    pub fn push(&self, seg: Vec<u8>) -> bool {
        if seg.is_empty() || self.closed {
            return !self.closed;
        }
        let mut p = self.to_client.lock().unwrap();
        if p.rgone || p.wclosed.is_some() {
            return false;
        }
        p.bytes += seg.len();
        p.segs.push_back(seg.clone());
        p.wake_reader();
        drop(p);
        log(Ev::PeerWrite { conn: self.conn, data: seg });
        true
    }

    pub fn client_gone(&self) -> bool {
        self.to_client.lock().unwrap().rgone
    }

    /// Bytes pushed towards the client that it has not read yet.
    pub fn unread_by_client(&self) -> usize {
        self.to_client.lock().unwrap().bytes
    }

    pub fn poll_read(&self, cx: &mut Context<'_>) -> Poll<ReadOutcome> {
        let mut p = self.from_client.lock().unwrap();
        if !p.segs.is_empty() {
            let mut out = Vec::with_capacity(p.bytes);
            while let Some(s) = p.segs.pop_front() {
                out.extend_from_slice(&s);
            }
            p.bytes = 0;
            p.wake_writer();
            drop(p);
            log(Ev::PeerRead { conn: self.conn, n: out.len() });
            return Poll::Ready(ReadOutcome::Data(out));
        }
        match p.wclosed {
            Some(CloseKind::Fin) => Poll::Ready(ReadOutcome::Eof),
            Some(CloseKind::Rst) => Poll::Ready(ReadOutcome::Reset),
            None => {
                p.rwaker = Some(cx.waker().clone());
                Poll::Pending
            }
        }
    }

    pub async fn read(&self) -> ReadOutcome {
        std::future::poll_fn(|cx| self.poll_read(cx)).await
    }

    /// Stop/resume draining what the client writes (a stalled reader: the client's
    /// `write_all` blocks once `cap` bytes are unread).
    pub fn set_capacity(&self, cap: usize) {
        let mut p = self.from_client.lock().unwrap();
        p.cap = cap;
        if p.bytes < cap {
            p.wake_writer();
        }
    }

    pub fn close(&mut self, kind: CloseKind) {
        if self.closed {
            return;
        }
        self.closed = true;
        {
            let mut p = self.to_client.lock().unwrap();
            if p.wclosed.is_none() {
                p.wclosed = Some(kind);
            }
            if kind == CloseKind::Rst {
                p.segs.clear();
                p.bytes = 0;
            }
            p.wake_reader();
        }
        {
            let mut p = self.from_client.lock().unwrap();
            p.rgone = true;
            p.wake_writer();
        }
        try_log(Ev::Close { conn: self.conn, by: Side::Peer, kind });
    }
}

impl Drop for PeerEnd {
    fn drop(&mut self) {
        self.close(CloseKind::Fin);
    }
}

#[derive(Clone, Debug)]
pub enum AcceptMode {
    Accept { delay_ms: u64 },
    Refuse,
    Timeout { after_ms: u64 },
}

pub struct Server {
    pub mode: AcceptMode,
    pub inbox: mpsc::UnboundedSender<PeerEnd>,
    pub knobs: NetKnobs,
    /// how many more connections this server accepts (None = unlimited)
    pub accepts_left: Option<u32>,
}

#[derive(Default)]
pub struct Net {
    pub servers: BTreeMap<String, Server>,
    pub listener: Option<mpsc::UnboundedSender<SimStream>>,
    pub incoming_knobs: BTreeMap<String, NetKnobs>,
    pub next_conn: ConnId,
    pub pipe_cap: usize,
    /// conn id -> address the client knows the peer by
    pub conn_addr: BTreeMap<ConnId, String>,
}

pub struct SimListener {
    rx: Mutex<mpsc::UnboundedReceiver<SimStream>>,
}

impl SimListener {
    pub fn bind() -> io::Result<SimListener> {
        with(|w| {
            if w.net.listener.as_ref().map(|l| !l.is_closed()).unwrap_or(false) {
                return Err(io::Error::new(io::ErrorKind::AddrInUse, "sim addr in use"));
            }
            let (tx, rx) = mpsc::unbounded_channel();
            w.net.listener = Some(tx);
            Ok(SimListener { rx: Mutex::new(rx) })
        })
    }

    pub async fn accept(&self) -> io::Result<(SimStream, SocketAddr)> {
        let s = std::future::poll_fn(|cx| self.rx.lock().unwrap().poll_recv(cx)).await;
        match s {
            Some(s) => {
                let a = s.peer;
                Ok((s, a))
            }
            None => std::future::pending().await,
        }
    }
}

fn parse_addr(addr: &str) -> Option<SocketAddr> {
    addr.parse().ok()
}

enum DialPlan {
    Refused,
    Timeout(u64),
    Accept(u64),
}

/// Client dials a peer (shim for `TcpStream::connect`).
pub async fn connect(addr: &str) -> io::Result<SimStream> {
    let plan = with(|w| match w.net.servers.get_mut(addr) {
        None => DialPlan::Refused,
        Some(s) => {
            if s.inbox.is_closed() || s.accepts_left == Some(0) {
                return DialPlan::Refused;
            }
            match s.mode {
                AcceptMode::Refuse => DialPlan::Refused,
                AcceptMode::Timeout { after_ms } => DialPlan::Timeout(after_ms),
                AcceptMode::Accept { delay_ms } => DialPlan::Accept(delay_ms),
            }
        }
    });
    match plan {
        DialPlan::Refused => {
            log(Ev::Dial { conn: None, addr: addr.to_string(), outcome: DialOutcome::Refused });
            bump("connect_refused");
            Err(io::Error::new(io::ErrorKind::ConnectionRefused, "sim refused"))
        }
        DialPlan::Timeout(ms) => {
            tokio::time::sleep(std::time::Duration::from_millis(ms)).await;
            log(Ev::Dial { conn: None, addr: addr.to_string(), outcome: DialOutcome::Timeout });
            bump("connect_timeout");
            Err(io::Error::new(io::ErrorKind::TimedOut, "sim timeout"))
        }
        DialPlan::Accept(ms) => {
            if ms > 0 {
                tokio::time::sleep(std::time::Duration::from_millis(ms)).await;
            }
            let sock = parse_addr(addr);
            let r = with(|w| {
                let sock = sock?;
                let cap = w.net.pipe_cap;
                let s = w.net.servers.get_mut(addr)?;
                if s.inbox.is_closed() || s.accepts_left == Some(0) {
                    return None;
                }
                if let Some(n) = s.accepts_left.as_mut() {
                    *n -= 1;
                }
                let knobs = s.knobs.clone();
                let inbox = s.inbox.clone();
                w.net.next_conn += 1;
                let conn = w.net.next_conn;
                let a = Arc::new(Mutex::new(Pipe::new(usize::MAX)));
                let b = Arc::new(Mutex::new(Pipe::new(cap)));
                let pe = PeerEnd { conn, addr: addr.to_string(), to_client: a.clone(), from_client: b.clone(), closed: false };
                if inbox.send(pe).is_err() {
                    return None;
                }
                w.net.conn_addr.insert(conn, addr.to_string());
                let rng = Rng64::sub(knobs.seed, &format!("conn-out-{}", addr));
                Some(SimStream { conn, rx: a, tx: b, peer: sock, rng, knobs, eof_reads: 0 })
            });
            match r {
                Some(s) => {
                    log(Ev::Dial { conn: Some(s.conn), addr: addr.to_string(), outcome: DialOutcome::Accepted });
                    Ok(s)
                }
                None => {
                    log(Ev::Dial { conn: None, addr: addr.to_string(), outcome: DialOutcome::Refused });
                    bump("connect_refused");
                    Err(io::Error::new(io::ErrorKind::ConnectionRefused, "sim refused"))
                }
            }
        }
    }
}

/// A scripted peer dials the client's listening port. `from` must be "ip:port".
pub fn dial_in(from: &str) -> Option<PeerEnd> {
    let sock = parse_addr(from)?;
    let r = with(|w| {
        let l = w.net.listener.as_ref()?;
        if l.is_closed() {
            return None;
        }
        let cap = w.net.pipe_cap;
        let knobs = w.net.incoming_knobs.get(from).cloned().unwrap_or_default();
        w.net.next_conn += 1;
        let conn = w.net.next_conn;
        let a = Arc::new(Mutex::new(Pipe::new(usize::MAX)));
        let b = Arc::new(Mutex::new(Pipe::new(cap)));
        let rng = Rng64::sub(knobs.seed, &format!("conn-in-{}", from));
        let s = SimStream { conn, rx: a.clone(), tx: b.clone(), peer: sock, rng, knobs, eof_reads: 0 };
        if l.send(s).is_err() {
            return None;
        }
        w.net.conn_addr.insert(conn, from.to_string());
        Some(PeerEnd { conn, addr: from.to_string(), to_client: a, from_client: b, closed: false })
    });
    log(Ev::DialIn { conn: r.as_ref().map(|p| p.conn), from: from.to_string(), accepted: r.is_some() });
    r
}

/// A free-standing client-side stream + peer end (rig A: no listener, no server).
pub fn pair(addr: &str, knobs: NetKnobs) -> (SimStream, PeerEnd) {
    with(|w| {
        w.net.next_conn += 1;
        let conn = w.net.next_conn;
        let a = Arc::new(Mutex::new(Pipe::new(usize::MAX)));
        let b = Arc::new(Mutex::new(Pipe::new(usize::MAX)));
        let rng = Rng64::sub(knobs.seed, "pair");
        w.net.conn_addr.insert(conn, addr.to_string());
        (
            SimStream { conn, rx: a.clone(), tx: b.clone(), peer: parse_addr(addr).unwrap(), rng, knobs, eof_reads: 0 },
            PeerEnd { conn, addr: addr.to_string(), to_client: a, from_client: b, closed: false },
        )
    })
}

// ---------------------------------------------------------------------------------------------
// Disk

pub struct Disk {
    pub files: BTreeMap<String, Vec<u8>>,
    pub dirs: BTreeSet<String>,
    pub cwd: String,
    /// ordinals (0-based) of tokio::fs::write calls that fail
    pub fail_writes: BTreeSet<u64>,
    /// ordinals (0-based) of tokio::fs::read calls that fail
    pub fail_reads: BTreeSet<u64>,
    /// disk full from this write ordinal on
    pub full_from: Option<u64>,
    pub writes: u64,
    pub reads: u64,
    /// decides what a failed whole-file write leaves behind: nothing, or a torn prefix
    pub torn: Rng64,
}

impl Default for Disk {
    fn default() -> Self {
        let mut dirs = BTreeSet::new();
        dirs.insert("/".to_string());
        dirs.insert("/sim".to_string());
        dirs.insert("/sim/cwd".to_string());
        Disk {
            files: BTreeMap::new(),
            dirs,
            cwd: "/sim/cwd".to_string(),
            fail_writes: BTreeSet::new(),
            fail_reads: BTreeSet::new(),
            full_from: None,
            writes: 0,
            reads: 0,
            torn: Rng64::new(0),
        }
    }
}

impl Disk {
    /// Lexical resolution against the virtual cwd (exact for a tree without symlinks).
    pub fn resolve(&self, raw: &str) -> String {
        let mut parts: Vec<&str> = Vec::new();
        let joined;
        let full: &str = if raw.starts_with('/') {
            raw
        } else {
            joined = format!("{}/{}", self.cwd, raw);
            &joined
        };
        for c in full.split('/') {
            match c {
                "" | "." => {}
                ".." => {
                    parts.pop();
                }
                x => parts.push(x),
            }
        }
        format!("/{}", parts.join("/"))
    }

    fn parent_exists(&self, abs: &str) -> bool {
        match abs.rfind('/') {
            Some(0) => true,
            Some(i) => self.dirs.contains(&abs[..i]),
            None => false,
        }
    }

    pub fn write_whole(&mut self, raw: &str, data: &[u8]) -> io::Result<()> {
        let abs = self.resolve(raw);
        let ord = self.writes;
        self.writes += 1;
        let full = self.full_from.map(|f| ord >= f).unwrap_or(false);
        let ok = !full && !self.fail_writes.contains(&ord) && self.parent_exists(&abs) && !self.dirs.contains(&abs);
        if ok {
            self.files.insert(abs.clone(), data.to_vec());
        } else {
            if full {
                bump("disk_full_write_error");
            } else if self.fail_writes.contains(&ord) {
                bump("disk_write_error");
            }
            // the write is not atomic: the file has been created/truncated, and some prefix of the
            // data may have reached it before the error
            // (only a file that did not exist before is torn: destroying an existing copy through
            // a failed rewrite is a storage fault none of the properties quantifies over, see
            // DESIGN 12.5)
            if (full || self.fail_writes.contains(&ord)) && self.parent_exists(&abs) && !self.dirs.contains(&abs) && !self.files.contains_key(&abs) && self.torn.chance(1, 2) {
                let mut left_behind = self.torn.below(data.len() as u64 + 1) as usize;
                if left_behind == data.len() && left_behind > 0 {
                    left_behind -= 1;
                }
                self.files.insert(abs.clone(), data[..left_behind].to_vec());
                bump("torn_write");
                log(Ev::Disk { op: DiskOp::FileState, raw: raw.to_string(), path: abs.clone(), ok: true, data: data[..left_behind].to_vec(), len: left_behind });
            }
        }
        log(Ev::Disk { op: DiskOp::Write, raw: raw.to_string(), path: abs, ok, data: data.to_vec(), len: data.len() });
        if ok {
            Ok(())
        } else {
            Err(io::Error::new(io::ErrorKind::Other, "sim disk write error"))
        }
    }

    pub fn read_whole(&mut self, raw: &str) -> io::Result<Vec<u8>> {
        let abs = self.resolve(raw);
        let ord = self.reads;
        self.reads += 1;
        let injected = self.fail_reads.contains(&ord);
        let r = if injected { None } else { self.files.get(&abs).cloned() };
        if injected {
            bump("disk_read_error");
        }
        log(Ev::Disk {
            op: DiskOp::Read,
            raw: raw.to_string(),
            path: abs,
            ok: r.is_some(),
            data: Vec::new(),
            len: r.as_ref().map(|d| d.len()).unwrap_or(0),
        });
        r.ok_or_else(|| io::Error::new(io::ErrorKind::NotFound, "sim not found"))
    }

    pub fn mkdir_all(&mut self, raw: &str) -> io::Result<()> {
        let abs = self.resolve(raw);
        let mut ok = true;
        let mut cur = String::new();
        for c in abs.split('/').filter(|c| !c.is_empty()) {
            cur.push('/');
            cur.push_str(c);
            if self.files.contains_key(&cur) {
                ok = false;
                break;
            }
            self.dirs.insert(cur.clone());
        }
        log(Ev::Disk { op: DiskOp::Mkdir, raw: raw.to_string(), path: abs, ok, data: Vec::new(), len: 0 });
        if ok {
            Ok(())
        } else {
            Err(io::Error::new(io::ErrorKind::AlreadyExists, "sim: file in the way"))
        }
    }

    pub fn create(&mut self, raw: &str) -> io::Result<String> {
        let abs = self.resolve(raw);
        let ok = self.parent_exists(&abs) && !self.dirs.contains(&abs) && abs != "/";
        if ok {
            self.files.insert(abs.clone(), Vec::new());
        }
        log(Ev::Disk { op: DiskOp::Create, raw: raw.to_string(), path: abs.clone(), ok, data: Vec::new(), len: 0 });
        if ok {
            Ok(abs)
        } else {
            Err(io::Error::new(io::ErrorKind::NotFound, "sim: cannot create"))
        }
    }

    pub fn open(&mut self, raw: &str) -> io::Result<String> {
        let abs = self.resolve(raw);
        let ok = self.files.contains_key(&abs);
        let len = self.files.get(&abs).map(|d| d.len()).unwrap_or(0);
        log(Ev::Disk { op: DiskOp::Open, raw: raw.to_string(), path: abs.clone(), ok, data: Vec::new(), len });
        if ok {
            Ok(abs)
        } else {
            Err(io::Error::new(io::ErrorKind::NotFound, "sim: not found"))
        }
    }

    pub fn write_at(&mut self, abs: &str, pos: u64, data: &[u8]) -> io::Result<usize> {
        let f = self.files.get_mut(abs).ok_or_else(|| io::Error::new(io::ErrorKind::NotFound, "sim: gone"))?;
        let pos = pos as usize;
        if f.len() < pos + data.len() {
            f.resize(pos + data.len(), 0);
        }
        f[pos..pos + data.len()].copy_from_slice(data);
        log(Ev::Disk { op: DiskOp::Append, raw: String::new(), path: abs.to_string(), ok: true, data: Vec::new(), len: data.len() });
        Ok(data.len())
    }

    pub fn read_at(&mut self, abs: &str, pos: u64, buf: &mut [u8]) -> io::Result<usize> {
        let f = self.files.get(abs).ok_or_else(|| io::Error::new(io::ErrorKind::NotFound, "sim: gone"))?;
        let pos = (pos as usize).min(f.len());
        let n = buf.len().min(f.len() - pos);
        buf[..n].copy_from_slice(&f[pos..pos + n]);
        Ok(n)
    }

    // ---- tokio::fs::File and friends (asynchronous file API of the client) ----

    fn file_state(&self, raw: &str, abs: &str) {
        let data = self.files.get(abs).cloned().unwrap_or_default();
        let len = data.len();
        log(Ev::Disk { op: DiskOp::FileState, raw: raw.to_string(), path: abs.to_string(), ok: true, data, len });
    }

    /// `File::create`: counts as a write for the injected disk faults.
    pub fn afile_create(&mut self, raw: &str) -> io::Result<String> {
        let abs = self.resolve(raw);
        let ord = self.writes;
        self.writes += 1;
        let full = self.full_from.map(|f| ord >= f).unwrap_or(false);
        let injected = full || self.fail_writes.contains(&ord);
        if injected {
            bump(if full { "disk_full_write_error" } else { "disk_write_error" });
        }
        let ok = !injected && self.parent_exists(&abs) && !self.dirs.contains(&abs) && abs != "/";
        if ok {
            self.files.insert(abs.clone(), Vec::new());
            self.file_state(raw, &abs);
            Ok(abs)
        } else {
            log(Ev::Disk { op: DiskOp::Write, raw: raw.to_string(), path: abs, ok: false, data: Vec::new(), len: 0 });
            Err(io::Error::new(io::ErrorKind::Other, "sim disk create error"))
        }
    }

    /// One `write` call on a `File`: at most `max` bytes are taken (a short write is legal).
    pub fn afile_write(&mut self, abs: &str, pos: u64, data: &[u8], max: usize) -> io::Result<usize> {
        let n = data.len().min(max);
        let f = self.files.get_mut(abs).ok_or_else(|| io::Error::new(io::ErrorKind::NotFound, "sim: gone"))?;
        let pos = pos as usize;
        if f.len() < pos + n {
            f.resize(pos + n, 0);
        }
        f[pos..pos + n].copy_from_slice(&data[..n]);
        if n < data.len() {
            bump("afile_short_write");
        }
        self.file_state("", abs);
        Ok(n)
    }

    pub fn afile_set_len(&mut self, abs: &str, len: u64) -> io::Result<()> {
        let f = self.files.get_mut(abs).ok_or_else(|| io::Error::new(io::ErrorKind::NotFound, "sim: gone"))?;
        f.resize(len as usize, 0);
        self.file_state("", abs);
        Ok(())
    }

    pub fn remove_file(&mut self, raw: &str) -> io::Result<()> {
        let abs = self.resolve(raw);
        let ok = self.files.remove(&abs).is_some();
        log(Ev::Disk { op: DiskOp::Remove, raw: raw.to_string(), path: abs, ok, data: Vec::new(), len: 0 });
        if ok {
            Ok(())
        } else {
            Err(io::Error::new(io::ErrorKind::NotFound, "sim: not found"))
        }
    }

    pub fn rename(&mut self, from: &str, to: &str) -> io::Result<()> {
        let (a, b) = (self.resolve(from), self.resolve(to));
        if !self.files.contains_key(&a) || !self.parent_exists(&b) || self.dirs.contains(&b) {
            log(Ev::Disk { op: DiskOp::Remove, raw: from.to_string(), path: a, ok: false, data: Vec::new(), len: 0 });
            return Err(io::Error::new(io::ErrorKind::NotFound, "sim: cannot rename"));
        }
        let data = self.files.remove(&a).unwrap();
        log(Ev::Disk { op: DiskOp::Remove, raw: from.to_string(), path: a, ok: true, data: Vec::new(), len: 0 });
        self.files.insert(b.clone(), data);
        self.file_state(to, &b);
        Ok(())
    }

    pub fn exists(&self, raw: &str) -> bool {
        let abs = self.resolve(raw);
        self.files.contains_key(&abs) || self.dirs.contains(&abs)
    }

    pub fn len_of(&self, abs: &str) -> Option<u64> {
        self.files.get(abs).map(|f| f.len() as u64)
    }
}

// ---------------------------------------------------------------------------------------------
// Tracker

#[derive(Clone, Debug)]
pub enum TrackerOutcome {
    /// transport error (connection refused, DNS, ...)
    Refused,
    /// HTTP status + body
    Http(u16, Vec<u8>),
}

#[derive(Default)]
pub struct Tracker {
    /// (latency ms, outcome, label); consumed one per announce, the last one repeats
    pub script: Vec<(u64, TrackerOutcome, String)>,
    pub announces: u64,
    pub repeat_latency: u64,
}

impl Tracker {
    pub fn announce(&mut self, url: &str) -> (u64, u64, TrackerOutcome) {
        let n = self.announces;
        self.announces += 1;
        log(Ev::Announce { n, url: url.to_string() });
        if self.script.is_empty() {
            return (n, 0, TrackerOutcome::Refused);
        }
        let i = (n as usize).min(self.script.len() - 1);
        let (lat, out, _) = &self.script[i];
        // repeats of the last step (re-announces) cost at least `repeat_latency`: a client that
        // re-announces in a tight loop would otherwise spin through virtual milliseconds
        let lat = if n as usize >= self.script.len() { (*lat).max(self.repeat_latency) } else { *lat };
        (n, lat, out.clone())
    }

    pub fn label(&self, n: u64) -> String {
        if self.script.is_empty() {
            return "Refused(no script)".into();
        }
        let i = (n as usize).min(self.script.len() - 1);
        self.script[i].2.clone()
    }
}

// ---------------------------------------------------------------------------------------------
// World

pub struct World {
    pub seed: u64,
    pub net: Net,
    pub disk: Disk,
    pub tracker: Tracker,
    /// generator behind `rand::thread_rng()` inside rdest
    pub rdest_rng: Rng64,
    /// yield injection for the fs shim
    pub fs_rng: Rng64,
    pub fs_yield_pm: u32,
    /// yield injection at channel sends/receives (per-mille)
    pub sched_rng: Rng64,
    pub sched_yield_pm: u32,
    /// tuning knob: upper bound on the capacity of every bounded mpsc channel rdest creates
    pub chan_cap: Option<usize>,
}

impl World {
    pub fn new(seed: u64) -> World {
        World {
            seed,
            net: Net { pipe_cap: 1 << 20, ..Default::default() },
            disk: Disk { torn: Rng64::sub(seed, "disk-torn"), ..Disk::default() },
            tracker: Tracker::default(),
            rdest_rng: Rng64::sub(seed, "rdest-thread-rng"),
            fs_rng: Rng64::sub(seed, "fs-yield"),
            fs_yield_pm: 0,
            sched_rng: Rng64::sub(seed, "sched-yield"),
            sched_yield_pm: 0,
            chan_cap: None,
        }
    }
}

thread_local! {
    static WORLD: RefCell<Option<World>> = const { RefCell::new(None) };
    static LOG: RefCell<Log> = RefCell::new(Log::default());
    static STATS: RefCell<BTreeMap<&'static str, u64>> = const { RefCell::new(BTreeMap::new()) };
}

/// Install a fresh world, an empty enabled log and empty counters on this thread.
pub fn install(w: World) {
    WORLD.with(|c| *c.borrow_mut() = Some(w));
    LOG.with(|l| *l.borrow_mut() = Log { enabled: true, max_entries: 2_000_000, ..Default::default() });
    STATS.with(|s| s.borrow_mut().clear());
}

pub fn take() -> Option<World> {
    WORLD.with(|c| c.borrow_mut().take())
}

pub fn take_log() -> Log {
    LOG.with(|l| std::mem::take(&mut *l.borrow_mut()))
}

pub fn take_stats() -> BTreeMap<&'static str, u64> {
    STATS.with(|s| std::mem::take(&mut *s.borrow_mut()))
}

pub fn installed() -> bool {
    WORLD.with(|c| c.borrow().is_some())
}

pub fn with<R>(f: impl FnOnce(&mut World) -> R) -> R {
    WORLD.with(|c| {
        let mut b = c.borrow_mut();
        f(b.as_mut().expect("sim world not installed on this thread"))
    })
}

pub fn try_with<R>(f: impl FnOnce(&mut World) -> R) -> Option<R> {
    WORLD.with(|c| match c.try_borrow_mut() {
        Ok(mut b) => b.as_mut().map(f),
        Err(_) => None,
    })
}

pub fn with_log<R>(f: impl FnOnce(&mut Log) -> R) -> R {
    LOG.with(|l| f(&mut l.borrow_mut()))
}

pub fn log(ev: Ev) {
    LOG.with(|l| l.borrow_mut().push(ev));
}

/// Logging from Drop impls (may run during thread-local teardown).
pub fn try_log(ev: Ev) {
    let _ = LOG.try_with(|l| {
        if let Ok(mut l) = l.try_borrow_mut() {
            l.push(ev)
        }
    });
}

pub fn bump(k: &'static str) {
    let _ = STATS.try_with(|s| {
        if let Ok(mut s) = s.try_borrow_mut() {
            *s.entry(k).or_insert(0) += 1
        }
    });
}

/// Set the origin of virtual time for log stamps (call inside the runtime).
pub fn start_clock() {
    LOG.with(|l| l.borrow_mut().start = Some(Instant::now()));
}

pub fn now_ms() -> u64 {
    LOG.with(|l| l.borrow().now_ms())
}

pub fn log_len() -> usize {
    LOG.with(|l| l.borrow().entries.len())
}

/// Capacity a bounded channel asked for with `buffer` slots really gets in this run.
pub fn chan_cap(buffer: usize) -> usize {
    match try_with(|w| w.chan_cap).unwrap_or(None) {
        Some(c) if c < buffer => {
            bump("chan_cap_reduced");
            c.max(1)
        }
        _ => buffer,
    }
}

/// Seeded decision "this task is slow right here": used by the channel shims.
pub fn sched_yield() -> bool {
    let y = try_with(|w| w.sched_yield_pm > 0 && w.sched_rng.below(1000) < w.sched_yield_pm as u64).unwrap_or(false);
    if y {
        bump("sched_yield");
    }
    y
}
